package main

import (
	"fmt"
	"strings"
)

// Term is a hash-consed SMT term. W>0: bit-vector of width W. W==0: Bool.
type Term struct {
	Op   string
	Args []*Term
	W    int
	C    uint64 // value for Op=="const" (bool: 0/1)
	Name string // for var / uf
	id   int
	key  string
}

type TermPool struct {
	m    map[string]*Term
	next int
}

func NewPool() *TermPool { return &TermPool{m: map[string]*Term{}} }

func (p *TermPool) mk(t *Term) *Term {
	var sb strings.Builder
	fmt.Fprintf(&sb, "%s/%d/%d/%s", t.Op, t.W, t.C, t.Name)
	for _, a := range t.Args {
		fmt.Fprintf(&sb, ",%d", a.id)
	}
	k := sb.String()
	if e, ok := p.m[k]; ok {
		return e
	}
	p.next++
	t.id = p.next
	t.key = k
	p.m[k] = t
	return t
}

func mask(w int) uint64 {
	if w >= 64 {
		return ^uint64(0)
	}
	return (uint64(1) << uint(w)) - 1
}

func (p *TermPool) BV(w int, v uint64) *Term { return p.mk(&Term{Op: "const", W: w, C: v & mask(w)}) }
func (p *TermPool) Bool(b bool) *Term {
	if b {
		return p.mk(&Term{Op: "const", W: 0, C: 1})
	}
	return p.mk(&Term{Op: "const", W: 0, C: 0})
}
func (p *TermPool) Var(name string, w int) *Term { return p.mk(&Term{Op: "var", W: w, Name: name}) }
func (p *TermPool) UF(name string, w int, args ...*Term) *Term {
	return p.mk(&Term{Op: "uf", W: w, Name: name, Args: args})
}

func (t *Term) IsConst() bool { return t.Op == "const" }
func (t *Term) IsTrue() bool  { return t.Op == "const" && t.W == 0 && t.C == 1 }
func (t *Term) IsFalse() bool { return t.Op == "const" && t.W == 0 && t.C == 0 }

func sext(v uint64, w int) int64 {
	if w >= 64 {
		return int64(v)
	}
	sh := uint(64 - w)
	return int64(v<<sh) >> sh
}

// BinBV builds a bit-vector binary operation with constant folding.
func (p *TermPool) BinBV(op string, a, b *Term) *Term {
	w := a.W
	if a.IsConst() && b.IsConst() {
		x, y := a.C, b.C
		switch op {
		case "bvadd":
			return p.BV(w, x+y)
		case "bvsub":
			return p.BV(w, x-y)
		case "bvmul":
			return p.BV(w, x*y)
		case "bvand":
			return p.BV(w, x&y)
		case "bvor":
			return p.BV(w, x|y)
		case "bvxor":
			return p.BV(w, x^y)
		case "bvudiv":
			if y != 0 {
				return p.BV(w, x/y)
			}
		case "bvurem":
			if y != 0 {
				return p.BV(w, x%y)
			}
		case "bvsdiv":
			if y != 0 {
				sx, sy := sext(x, w), sext(y, w)
				if !(sy == -1 && sx == sext(uint64(1)<<uint(w-1), w)) {
					return p.BV(w, uint64(sx/sy))
				}
				return p.BV(w, x)
			}
		case "bvsrem":
			if y != 0 {
				sx, sy := sext(x, w), sext(y, w)
				if sy == -1 {
					return p.BV(w, 0)
				}
				return p.BV(w, uint64(sx%sy))
			}
		case "bvshl":
			if y >= uint64(w) {
				return p.BV(w, 0)
			}
			return p.BV(w, x<<y)
		case "bvlshr":
			if y >= uint64(w) {
				return p.BV(w, 0)
			}
			return p.BV(w, x>>y)
		case "bvashr":
			if y >= uint64(w) {
				y = uint64(w - 1)
			}
			return p.BV(w, uint64(sext(x, w)>>y))
		}
	}
	// (x + c1) + c2 -> x + (c1+c2); c + x -> x + c; (x + c1) - c2 -> x + (c1-c2)
	if op == "bvadd" && a.IsConst() && !b.IsConst() {
		a, b = b, a
	}
	if op == "bvsub" && b.IsConst() {
		return p.BinBV("bvadd", a, p.BV(w, -b.C))
	}
	if op == "bvadd" && b.IsConst() && a.Op == "bvadd" && a.Args[1].IsConst() {
		return p.BinBV("bvadd", a.Args[0], p.BV(w, a.Args[1].C+b.C))
	}
	// light algebraic identities
	if b.IsConst() && b.C == 0 && (op == "bvadd" || op == "bvsub" || op == "bvor" || op == "bvxor" || op == "bvshl" || op == "bvlshr") {
		return a
	}
	if a.IsConst() && a.C == 0 && (op == "bvadd" || op == "bvor" || op == "bvxor") {
		return b
	}
	return p.mk(&Term{Op: op, W: w, Args: []*Term{a, b}})
}

// Cmp builds a comparison (result Bool).
func (p *TermPool) Cmp(op string, a, b *Term) *Term {
	if a.IsConst() && b.IsConst() {
		x, y := a.C, b.C
		sx, sy := sext(x, a.W), sext(y, a.W)
		switch op {
		case "=":
			return p.Bool(x == y)
		case "bvult":
			return p.Bool(x < y)
		case "bvule":
			return p.Bool(x <= y)
		case "bvugt":
			return p.Bool(x > y)
		case "bvuge":
			return p.Bool(x >= y)
		case "bvslt":
			return p.Bool(sx < sy)
		case "bvsle":
			return p.Bool(sx <= sy)
		case "bvsgt":
			return p.Bool(sx > sy)
		case "bvsge":
			return p.Bool(sx >= sy)
		}
	}
	if a == b {
		switch op {
		case "=", "bvule", "bvuge", "bvsle", "bvsge":
			return p.Bool(true)
		default:
			return p.Bool(false)
		}
	}
	if op == "=" {
		// x + c1 = x + c2  <=>  c1 = c2 (also with a missing constant)
		ba, ca := splitAddConst(a)
		bb, cb := splitAddConst(b)
		if ba == bb && ba != nil {
			return p.Bool(ca == cb)
		}
	}
	return p.mk(&Term{Op: op, W: 0, Args: []*Term{a, b}})
}

// splitAddConst views t as base + constant.
func splitAddConst(t *Term) (*Term, uint64) {
	if t.IsConst() {
		return nil, t.C
	}
	if t.Op == "bvadd" && t.Args[1].IsConst() {
		return t.Args[0], t.Args[1].C
	}
	return t, 0
}

func (p *TermPool) Not(a *Term) *Term {
	if a.IsConst() {
		return p.Bool(a.C == 0)
	}
	if a.Op == "not" {
		return a.Args[0]
	}
	return p.mk(&Term{Op: "not", W: 0, Args: []*Term{a}})
}

func (p *TermPool) And(a, b *Term) *Term {
	if a.IsFalse() || b.IsFalse() {
		return p.Bool(false)
	}
	if a.IsTrue() {
		return b
	}
	if b.IsTrue() {
		return a
	}
	if a == b {
		return a
	}
	return p.mk(&Term{Op: "and", W: 0, Args: []*Term{a, b}})
}

func (p *TermPool) Or(a, b *Term) *Term {
	if a.IsTrue() || b.IsTrue() {
		return p.Bool(true)
	}
	if a.IsFalse() {
		return b
	}
	if b.IsFalse() {
		return a
	}
	if a == b {
		return a
	}
	return p.mk(&Term{Op: "or", W: 0, Args: []*Term{a, b}})
}

func (p *TermPool) Eq(a, b *Term) *Term {
	if a.W == 0 {
		if a.IsConst() && b.IsConst() {
			return p.Bool(a.C == b.C)
		}
		if a == b {
			return p.Bool(true)
		}
		if a.IsTrue() {
			return b
		}
		if b.IsTrue() {
			return a
		}
		if a.IsFalse() {
			return p.Not(b)
		}
		if b.IsFalse() {
			return p.Not(a)
		}
		return p.mk(&Term{Op: "=", W: 0, Args: []*Term{a, b}})
	}
	return p.Cmp("=", a, b)
}

func (p *TermPool) Ite(c, a, b *Term) *Term {
	if c.IsTrue() {
		return a
	}
	if c.IsFalse() {
		return b
	}
	if a == b {
		return a
	}
	return p.mk(&Term{Op: "ite", W: a.W, Args: []*Term{c, a, b}})
}

func (p *TermPool) Extend(a *Term, to int, signed bool) *Term {
	if to == a.W {
		return a
	}
	if to < a.W {
		if a.IsConst() {
			return p.BV(to, a.C)
		}
		return p.mk(&Term{Op: "extract", W: to, Args: []*Term{a}})
	}
	if a.IsConst() {
		if signed {
			return p.BV(to, uint64(sext(a.C, a.W)))
		}
		return p.BV(to, a.C)
	}
	if signed {
		return p.mk(&Term{Op: "sext", W: to, Args: []*Term{a}})
	}
	return p.mk(&Term{Op: "zext", W: to, Args: []*Term{a}})
}

func sortOf(w int) string {
	if w == 0 {
		return "Bool"
	}
	return fmt.Sprintf("(_ BitVec %d)", w)
}

func constStr(t *Term) string {
	if t.W == 0 {
		if t.C == 1 {
			return "true"
		}
		return "false"
	}
	if t.W%4 == 0 {
		return fmt.Sprintf("#x%0*x", t.W/4, t.C)
	}
	return fmt.Sprintf("#b%0*b", t.W, t.C)
}
