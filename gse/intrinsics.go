package main

import (
	"strconv"
	_ "fmt"
	"go/token"
	"go/types"
	"strings"

	"golang.org/x/tools/go/ssa"
)

func (e *Exec) namedType(pkg, name string) types.Type {
	p := e.prog.ImportedPackage(pkg)
	if p == nil {
		panic(unsupported{"package not loaded: " + pkg})
	}
	return p.Type(name).Type()
}

func (e *Exec) labelArg(v Value) string {
	if s, ok := v.(StrV); ok && s.isConc() {
		return s.C
	}
	return "x"
}

func (e *Exec) mkError(wrapped []IfaceV) IfaceV {
	return e.mkErrorMsg(StrV{Sym: e.fresh("errmsg", 64)}, wrapped)
}

func (e *Exec) mkErrorMsg(msg StrV, wrapped []IfaceV) IfaceV {
	switch len(wrapped) {
	case 0:
		t := e.namedType("errors", "errorString")
		return IfaceV{T: types.NewPointer(t), V: PtrV{Obj: e.newObj(&StructV{F: []Value{msg}})}}
	case 1:
		t := e.namedType("fmt", "wrapError")
		return IfaceV{T: types.NewPointer(t), V: PtrV{Obj: e.newObj(&StructV{F: []Value{msg, wrapped[0]}})}}
	}
	t := e.namedType("fmt", "wrapErrors")
	arr := &ArrayV{E: make([]Value, len(wrapped))}
	for i, w := range wrapped {
		arr.E[i] = w
	}
	return IfaceV{T: types.NewPointer(t), V: PtrV{Obj: e.newObj(&StructV{F: []Value{msg, SliceV{Arr: e.newObj(arr), Len: len(wrapped), Cap: len(wrapped)}}})}}
}

// wVerbArgs returns the indexes of operands consumed by %w verbs.
func wVerbArgs(format string) ([]int, bool) {
	var res []int
	arg := 0
	for i := 0; i < len(format); i++ {
		if format[i] != '%' {
			continue
		}
		i++
		for i < len(format) && strings.ContainsRune("+-# 0123456789.", rune(format[i])) {
			i++
		}
		if i >= len(format) {
			return nil, false
		}
		switch format[i] {
		case '%':
		case '[', '*':
			return nil, false
		case 'w':
			res = append(res, arg)
			arg++
		default:
			arg++
		}
	}
	return res, true
}

func (e *Exec) unwrap(err IfaceV) []IfaceV {
	if err.T == nil {
		return nil
	}
	m := e.findMethod(err.T, nil, "Unwrap")
	if m == nil {
		return nil
	}
	r := e.callFn(m, nil, []Value{err.V})
	switch x := r.(type) {
	case IfaceV:
		return []IfaceV{x}
	case SliceV:
		var out []IfaceV
		for i := 0; i < x.Len; i++ {
			out = append(out, x.Arr.V.(*ArrayV).E[x.Off+i].(IfaceV))
		}
		return out
	}
	return nil
}

func (e *Exec) errorsAs(err IfaceV, target IfaceV) bool {
	tp, ok := target.T.(*types.Pointer)
	if !ok {
		panic(goPanic{msg: "errors.As: target must be a non-nil pointer"})
	}
	tt := tp.Elem()
	_, tIsIface := tt.Underlying().(*types.Interface)
	var walk func(IfaceV) bool
	walk = func(x IfaceV) bool {
		if x.T == nil {
			return false
		}
		if types.AssignableTo(x.T, tt) {
			if tIsIface {
				e.store(target.V.(PtrV), x)
			} else {
				e.store(target.V.(PtrV), x.V)
			}
			return true
		}
		if m := e.findMethod(x.T, nil, "As"); m != nil {
			if e.decide(e.callFn(m, nil, []Value{x.V, target}).(BoolV).T) {
				return true
			}
		}
		for _, u := range e.unwrap(x) {
			if walk(u) {
				return true
			}
		}
		return false
	}
	return walk(err)
}

func (e *Exec) errorsIs(err, target IfaceV) bool {
	var walk func(IfaceV) bool
	walk = func(x IfaceV) bool {
		if x.T == nil {
			return target.T == nil
		}
		if target.T != nil && types.Comparable(target.T) && e.decide(e.ifaceEq(x, target)) {
			return true
		}
		if m := e.findMethod(x.T, nil, "Is"); m != nil {
			if e.decide(e.callFn(m, nil, []Value{x.V, target}).(BoolV).T) {
				return true
			}
		}
		for _, u := range e.unwrap(x) {
			if walk(u) {
				return true
			}
		}
		return false
	}
	return walk(err)
}

// now: the clock is a symbolic base instant plus what the harness advanced (zzverif.Advance, time.Sleep).
func (e *Exec) now() TimeV {
	if e.clock0 == nil && e.cfg.ConcreteClock {
		// units whose property does not depend on the instant: the clock starts at a fixed instant
		// (2000-01-01T00:00:00Z, the instant of the native synctest bubble)
		e.clock0 = e.P.BV(64, 946684800_000000000)
		e.clockAdv = e.P.BV(64, 0)
	}
	if e.clock0 == nil {
		e.clock0 = e.P.Var("clock0", 64)
		lim := e.P.BV(64, uint64(1)<<61)
		e.assume(e.P.Cmp("bvsle", e.clock0, lim))
		e.assume(e.P.Cmp("bvsge", e.clock0, e.P.BinBV("bvsub", e.P.BV(64, 0), lim)))
		e.clockAdv = e.P.BV(64, 0)
	}
	return TimeV{NS: e.P.BinBV("bvadd", e.clock0, e.clockAdv)}
}

// floorDiv divides a signed term by a positive constant rounding towards minus infinity (Time.Unix semantics).
func (e *Exec) floorDiv(a *Term, c uint64) *Term {
	cs := e.P.BV(64, c)
	q := e.P.BinBV("bvsdiv", a, cs)
	r := e.P.BinBV("bvsrem", a, cs)
	neg := e.P.And(e.P.Cmp("bvslt", a, e.P.BV(64, 0)), e.P.Not(e.P.Cmp("=", r, e.P.BV(64, 0))))
	return e.P.Ite(neg, e.P.BinBV("bvsub", q, e.P.BV(64, 1)), q)
}

// timeSub is Time.Sub: the difference saturates at the minimum / maximum Duration.
func (e *Exec) timeSub(a, b *Term) *Term {
	d := e.P.BinBV("bvsub", a, b)
	zero := e.P.BV(64, 0)
	aNeg := e.P.Cmp("bvslt", a, zero)
	bNeg := e.P.Cmp("bvslt", b, zero)
	dNeg := e.P.Cmp("bvslt", d, zero)
	ovf := e.P.And(e.P.Not(e.P.Eq(aNeg, bNeg)), e.P.Not(e.P.Eq(dNeg, aNeg)))
	sat := e.P.Ite(aNeg, e.P.BV(64, uint64(1)<<63), e.P.BV(64, (uint64(1)<<63)-1))
	return e.P.Ite(ovf, sat, d)
}

// timeAdd is Time.Add within the model's range: instants are int64 nanoseconds since the epoch, so a
// result outside that range (years 1678..2262) is outside the model; such paths are cut (stated assumption).
func (e *Exec) timeAdd(a, d *Term) *Term {
	r := e.P.BinBV("bvadd", a, d)
	zero := e.P.BV(64, 0)
	aNeg := e.P.Cmp("bvslt", a, zero)
	dNeg := e.P.Cmp("bvslt", d, zero)
	rNeg := e.P.Cmp("bvslt", r, zero)
	ovf := e.P.And(e.P.Eq(aNeg, dNeg), e.P.Not(e.P.Eq(rNeg, aNeg)))
	if ovf.IsFalse() {
		return r
	}
	e.assume(e.P.Not(ovf))
	e.checkFeasible("Time.Add range")
	return r
}

func (e *Exec) advance(d *Term) {
	e.now()
	pos := e.P.Cmp("bvsgt", d, e.P.BV(64, 0))
	e.clockAdv = e.P.Ite(pos, e.P.BinBV("bvadd", e.clockAdv, d), e.clockAdv)
}

func (e *Exec) intrinsic(fn *ssa.Function, args []Value) (Value, bool) {
	name := fn.String()
	if fn.Pkg != nil && fn.Pkg.Pkg.Path() == e.cfg.ZZPath {
		return e.zz(fn.Name(), args), true
	}
	if pk := fnPkgPath(fn); pk != "" && isOpaquePkg(pk) {
		// logging, tracing and metrics libraries: no-ops with opaque results
		return e.opaqueResults(fn.Signature, args), true
	}
	if r, ok := e.nativeEval(name, args); ok {
		return r, true
	}
	switch name {
	case "(github.com/libp2p/go-libp2p/core/peer.ID).ShortString", "(github.com/libp2p/go-libp2p/core/peer.ID).String",
		"(github.com/libp2p/go-libp2p/core/peer.ID).Loggable", "runtime/debug.Stack":
		// formatting only: opaque text
		return e.opaqueResults(fn.Signature, args), true
	}
	if r, ok := e.syncIntrinsic(fn, name, args); ok {
		return r, true
	}
	switch name {
	case "(time.Time).Compare":
		a, b := args[0].(TimeV).NS, args[1].(TimeV).NS
		return IntV{T: e.P.Ite(e.P.Cmp("bvslt", a, b), e.P.BV(64, ^uint64(0)), e.P.Ite(e.P.Cmp("bvsgt", a, b), e.P.BV(64, 1), e.P.BV(64, 0))), Signed: true}, true
	case "time.Now":
		return e.now(), true
	case "time.After", "time.Tick":
		var period *Term
		if name == "time.Tick" {
			period = args[0].(IntV).T
		}
		_, ch := e.newTimerChan(args[0].(IntV).T, period)
		return ch, true
	case "time.NewTimer", "time.NewTicker":
		var period *Term
		if name == "time.NewTicker" {
			period = args[0].(IntV).T
		}
		te, ch := e.newTimerChan(args[0].(IntV).T, period)
		tt := fn.Signature.Results().At(0).Type().(*types.Pointer).Elem()
		sv := e.zero(tt).(*StructV)
		sv.F[0] = ch // field C
		obj := e.newObj(sv)
		if e.timerObjs == nil {
			e.timerObjs = map[*Object]*timerEnt{}
		}
		e.timerObjs[obj] = te
		return PtrV{Obj: obj}, true
	case "(*time.Timer).Stop", "(*time.Ticker).Stop":
		te := e.timerObjs[args[0].(PtrV).Obj]
		was := te != nil && te.live()
		if te != nil {
			te.stopped = true
		}
		if fn.Signature.Results().Len() == 0 {
			return nil, true
		}
		return BoolV{e.P.Bool(was)}, true
	case "(*time.Timer).Reset", "(*time.Ticker).Reset":
		te := e.timerObjs[args[0].(PtrV).Obj]
		was := te != nil && te.live()
		if te != nil {
			te.stopped = false
			te.deadline = e.timeAdd(e.now().NS, args[1].(IntV).T)
		}
		if fn.Signature.Results().Len() == 0 {
			return nil, true
		}
		return BoolV{e.P.Bool(was)}, true
	case "time.Sleep":
		e.sleep(args[0].(IntV).T)
		return nil, true
	case "time.Until":
		n := e.now()
		return IntV{T: e.timeSub(args[0].(TimeV).NS, n.NS), Signed: true}, true
	case "time.Since":
		n := e.now()
		return IntV{T: e.timeSub(n.NS, args[0].(TimeV).NS), Signed: true}, true
	case "(time.Time).Add":
		return TimeV{NS: e.timeAdd(args[0].(TimeV).NS, args[1].(IntV).T)}, true
	case "(time.Time).Sub":
		return IntV{T: e.timeSub(args[0].(TimeV).NS, args[1].(TimeV).NS), Signed: true}, true
	case "(time.Time).Unix":
		return IntV{T: e.floorDiv(args[0].(TimeV).NS, 1_000_000_000), Signed: true}, true
	case "(time.Time).UnixMilli":
		return IntV{T: e.floorDiv(args[0].(TimeV).NS, 1_000_000), Signed: true}, true
	case "(time.Time).UnixMicro":
		return IntV{T: e.floorDiv(args[0].(TimeV).NS, 1_000), Signed: true}, true
	case "(time.Duration).Milliseconds":
		return IntV{T: e.P.BinBV("bvsdiv", args[0].(IntV).T, e.P.BV(64, 1_000_000)), Signed: true}, true
	case "(time.Duration).Microseconds":
		return IntV{T: e.P.BinBV("bvsdiv", args[0].(IntV).T, e.P.BV(64, 1_000)), Signed: true}, true
	case "(time.Duration).Nanoseconds":
		return args[0], true
	case "(time.Duration).Seconds", "(time.Duration).Minutes", "(time.Duration).Hours":
		if d := args[0].(IntV); d.T.IsConst() {
			div := map[string]float64{"Seconds": 1e9, "Minutes": 60e9, "Hours": 3600e9}[fn.Name()]
			return FloatV{F: float64(sext(d.T.C, 64)) / div}, true
		}
		return OpaqueV{"float"}, true
	case "(time.Time).Local", "(time.Time).In", "(time.Time).Round", "(time.Time).Truncate":
		if fn.Name() == "Local" || fn.Name() == "In" {
			return args[0], true
		}
		panic(unsupported{"time." + fn.Name() + " is not modelled"})
	case "(time.Time).UnixNano":
		return IntV{T: args[0].(TimeV).NS, Signed: true}, true
	case "time.Unix":
		if s, ok := args[0].(IntV); ok && s.T.IsConst() && s.T.C == 0 {
			return TimeV{NS: args[1].(IntV).T}, true
		}
		panic(unsupported{"time.Unix with non-zero seconds"})
	case "(time.Time).Before":
		return BoolV{e.P.Cmp("bvslt", args[0].(TimeV).NS, args[1].(TimeV).NS)}, true
	case "(time.Time).After":
		return BoolV{e.P.Cmp("bvsgt", args[0].(TimeV).NS, args[1].(TimeV).NS)}, true
	case "(time.Time).Equal":
		return BoolV{e.P.Cmp("=", args[0].(TimeV).NS, args[1].(TimeV).NS)}, true
	case "(time.Time).IsZero":
		return BoolV{e.P.Cmp("=", args[0].(TimeV).NS, e.zeroTimeNS())}, true
	case "(time.Time).UTC":
		return args[0], true
	case "(time.Time).Format", "(time.Duration).String":
		return StrV{Sym: e.fresh("fmt", 64)}, true
	case "fmt.Sprintf", "fmt.Sprint":
		return StrV{Sym: e.fresh("sprintf", 64)}, true
	case "fmt.Errorf":
		f, ok := args[0].(StrV)
		if !ok || !f.isConc() {
			panic(unsupported{"fmt.Errorf with non-constant format"})
		}
		idx, ok := wVerbArgs(f.C)
		if !ok {
			panic(unsupported{"fmt.Errorf format: " + f.C})
		}
		ops := args[1].(SliceV)
		var wrapped []IfaceV
		for _, i := range idx {
			if i < ops.Len {
				if w, ok := ops.Arr.V.(*ArrayV).E[ops.Off+i].(IfaceV); ok && w.T != nil {
					wrapped = append(wrapped, w)
				}
			}
		}
		return e.mkError(wrapped), true
	case "sort.Slice", "sort.SliceStable":
		// insertion sort calling the real less closure (reflection-based swapper is not interpretable);
		// the order of equal elements is therefore one of the orders the real sort may produce.
		sl := args[0].(IfaceV).V.(SliceV)
		el := func(i int) *Value { return &sl.Arr.V.(*ArrayV).E[sl.Off+i] }
		idx := func(i int) Value { return IntV{T: e.P.BV(64, uint64(i)), Signed: true} }
		for i := 1; i < sl.Len; i++ {
			for j := i; j > 0; j-- {
				if !e.decide(e.call(args[1], []Value{idx(j), idx(j - 1)}, "sort.Slice less").(BoolV).T) {
					break
				}
				*el(j), *el(j - 1) = *el(j - 1), *el(j)
			}
		}
		return nil, true
	case "slices.SortFunc", "slices.SortStableFunc":
		sl := args[0].(SliceV)
		el := func(i int) *Value { return &sl.Arr.V.(*ArrayV).E[sl.Off+i] }
		for i := 1; i < sl.Len; i++ {
			for j := i; j > 0; j-- {
				c := e.call(args[1], []Value{copyValue(*el(j)), copyValue(*el(j - 1))}, "slices.SortFunc cmp").(IntV)
				if !e.decide(e.P.Cmp("bvslt", c.T, e.P.BV(c.T.W, 0))) {
					break
				}
				*el(j), *el(j - 1) = *el(j - 1), *el(j)
			}
		}
		return nil, true
	case "errors.As":
		return BoolV{e.P.Bool(e.errorsAs(args[0].(IfaceV), args[1].(IfaceV)))}, true
	case "errors.Is":
		return BoolV{e.P.Bool(e.errorsIs(args[0].(IfaceV), args[1].(IfaceV)))}, true
	}
	return nil, false
}

func (e *Exec) timeInput(label string) *Term {
	t := e.input(label, 64)
	lim := e.P.BV(64, uint64(1)<<61)
	e.assume(e.P.Cmp("bvsle", t, lim))
	e.assume(e.P.Cmp("bvsge", t, e.P.BinBV("bvsub", e.P.BV(64, 0), lim)))
	return t
}

func (e *Exec) checkFeasible(what string) {
	r, _, err := e.S.Check(e.pc, nil)
	if err != nil || r == "unknown" {
		panic(unsupported{"feasibility check unknown at " + what})
	}
	if r == "unsat" {
		panic(pathAbort{"assume infeasible"})
	}
}

func (e *Exec) zz(name string, args []Value) Value {
	switch name {
	case "U64":
		return IntV{T: e.input(e.labelArg(args[0]), 64), Signed: false}
	case "I64":
		return IntV{T: e.input(e.labelArg(args[0]), 64), Signed: true}
	case "U8":
		return IntV{T: e.input(e.labelArg(args[0]), 8), Signed: false}
	case "I32":
		return IntV{T: e.input(e.labelArg(args[0]), 32), Signed: true}
	case "Bool":
		// a two-way catalogue pick: fork right away so that everything downstream is concrete
		t := e.input(e.labelArg(args[0]), 0)
		b := e.chooseN(2) == 1
		if b {
			e.pc = append(e.pc, t)
		} else {
			e.pc = append(e.pc, e.P.Not(t))
		}
		return BoolV{T: e.P.Bool(b)}
	case "Choice":
		n := e.concInt(args[1])
		t := e.input(e.labelArg(args[0]), 64)
		e.assume(e.P.Cmp("bvult", t, e.P.BV(64, uint64(n))))
		if n <= 1 {
			return IntV{T: e.P.BV(64, 0), Signed: true}
		}
		// a catalogue pick: fork over its values right away so that everything downstream is concrete
		// (every value of a fresh variable below n is feasible: no solver call needed)
		v := uint64(e.chooseN(n))
		e.pc = append(e.pc, e.P.Cmp("=", t, e.P.BV(64, v)))
		return IntV{T: e.P.BV(64, v), Signed: true}
	case "Str":
		return StrV{Sym: e.input(e.labelArg(args[0]), 64)}
	case "StrN":
		// bounded symbolic string: every byte string of length <= max
		label := e.labelArg(args[0])
		n := e.concInt(args[1])
		l := e.input(label+".len", 64)
		e.assume(e.P.Cmp("bvule", l, e.P.BV(64, uint64(n))))
		b := make([]*Term, n)
		for i := range b {
			b[i] = e.input(label+".b"+strconv.Itoa(i), 8)
		}
		return StrV{B: b, L: l}
	case "Time":
		e.now() // make sure clock0 exists: replay maps instants relative to it
		return TimeV{NS: e.timeInput(e.labelArg(args[0]))}
	case "Dur":
		return IntV{T: e.input(e.labelArg(args[0]), 64), Signed: true}
	case "Assume":
		c := args[0].(BoolV).T
		if c.IsTrue() {
			return nil
		}
		e.assume(c)
		e.checkFeasible("Assume")
		return nil
	case "Assert":
		e.assert(args[0].(BoolV).T, e.labelArg(args[1]))
		return nil
	case "Reach":
		l := e.labelArg(args[0])
		e.trace = append(e.trace, "reach:"+l)
		e.reachedNow = append(e.reachedNow, l)
		return nil
	case "Observe":
		e.obsTerms[len(e.trace)] = args[1].(IntV).T
		e.trace = append(e.trace, "obs:"+e.labelArg(args[0])+"=")
		return nil
	case "ObserveBool":
		b := args[1].(BoolV).T
		e.obsTerms[len(e.trace)] = e.P.Ite(b, e.P.BV(64, 1), e.P.BV(64, 0))
		e.trace = append(e.trace, "obs:"+e.labelArg(args[0])+"=")
		return nil
	case "Known":
		c := args[1].(BoolV).T
		if e.decide(c) {
			e.known = e.labelArg(args[0])
			return BoolV{e.P.Bool(true)}
		}
		return BoolV{e.P.Bool(false)}
	case "Param":
		n := e.labelArg(args[0])
		if v, ok := e.cfg.Params[n]; ok {
			return IntV{T: e.P.BV(64, uint64(int64(v))), Signed: true}
		}
		return args[1]
	case "Advance":
		e.sleep(args[0].(IntV).T)
		return nil
	case "Quiesce":
		e.quiesce()
		return nil
	case "Yield":
		e.schedPoint("yield")
		return nil
	case "Gate":
		e.gate(e.labelArg(args[0]))
		return nil
	}
	panic(unsupported{"zzverif helper " + name})
}

func concStr(v Value) (string, bool) {
	s, ok := v.(StrV)
	if !ok || !s.isConc() {
		return "", false
	}
	return s.C, true
}

// nativeEval evaluates pure standard-library leaf functions with the real implementation when all
// arguments are concrete (fixed table; listed in the evidence as part of the trusted base).
func (e *Exec) nativeEval(name string, args []Value) (Value, bool) {
	switch name {
	case "strings.EqualFold":
		a, ok1 := concStr(args[0])
		b, ok2 := concStr(args[1])
		if ok1 && ok2 {
			return BoolV{e.P.Bool(strings.EqualFold(a, b))}, true
		}
		// opaque strings: equal strings fold equal; otherwise an arbitrary but fixed symmetric verdict
		x, y := e.strTerm(args[0].(StrV)), e.strTerm(args[1].(StrV))
		lo := e.P.Ite(e.P.Cmp("bvult", x, y), x, y)
		hi := e.P.Ite(e.P.Cmp("bvult", x, y), y, x)
		return BoolV{e.P.Or(e.P.Cmp("=", x, y), e.P.Cmp("=", e.P.UF("equalfold", 1, lo, hi), e.P.BV(1, 1)))}, true
	case "strings.ToLower", "strings.ToUpper", "strings.TrimSpace":
		if a, ok := concStr(args[0]); ok {
			switch name {
			case "strings.ToLower":
				return StrV{C: strings.ToLower(a)}, true
			case "strings.ToUpper":
				return StrV{C: strings.ToUpper(a)}, true
			}
			return StrV{C: strings.TrimSpace(a)}, true
		}
	case "strings.HasPrefix", "strings.HasSuffix", "strings.Contains":
		a, ok1 := concStr(args[0])
		b, ok2 := concStr(args[1])
		if ok1 && ok2 {
			switch name {
			case "strings.HasPrefix":
				return BoolV{e.P.Bool(strings.HasPrefix(a, b))}, true
			case "strings.HasSuffix":
				return BoolV{e.P.Bool(strings.HasSuffix(a, b))}, true
			}
			return BoolV{e.P.Bool(strings.Contains(a, b))}, true
		}
	}
	return nil, false
}

var opaquePkgs = []string{"go.opentelemetry.io/", "go.uber.org/zap", "github.com/ipfs/go-log", "github.com/prometheus/"}

func isOpaquePkg(path string) bool {
	for _, p := range opaquePkgs {
		if strings.HasPrefix(path, p) {
			return true
		}
	}
	return false
}

func fnPkgPath(fn *ssa.Function) string {
	if fn.Pkg != nil {
		return fn.Pkg.Pkg.Path()
	}
	if o := fn.Origin(); o != nil && o.Pkg != nil {
		return o.Pkg.Pkg.Path()
	}
	if fn.Object() != nil && fn.Object().Pkg() != nil {
		return fn.Object().Pkg().Path()
	}
	return ""
}

var opaqueType = types.NewNamed(types.NewTypeName(0, nil, "zzOpaque", nil), types.NewStruct(nil, nil), nil)

// opaqueResults fabricates the results of a call into an opaque library: contexts are passed through,
// interfaces and pointers are non-nil dummies, everything else is the zero value.
func (e *Exec) opaqueResults(sig *types.Signature, args []Value) Value {
	res := sig.Results()
	mk := func(t types.Type) Value {
		if n, ok := t.(*types.Named); ok && n.Obj().Pkg() != nil && n.Obj().Pkg().Path() == "context" && n.Obj().Name() == "Context" {
			for _, a := range args {
				if i, ok := a.(IfaceV); ok {
					if _, ok := i.V.(*CtxV); ok {
						return i
					}
				}
			}
		}
		switch u := t.Underlying().(type) {
		case *types.Interface:
			if types.Identical(t, types.Universe.Lookup("error").Type()) {
				return IfaceV{}
			}
			return IfaceV{T: opaqueType, V: OpaqueV{t.String()}}
		case *types.Pointer:
			return PtrV{Obj: e.newObj(e.safeZero(u.Elem()))}
		case *types.Signature:
			return NativeFn(func(a []Value) Value { return e.opaqueResults(u, a) })
		}
		return e.safeZero(t)
	}
	switch res.Len() {
	case 0:
		return nil
	case 1:
		return mk(res.At(0).Type())
	}
	tv := make(TupleV, res.Len())
	for i := range tv {
		tv[i] = mk(res.At(i).Type())
	}
	return tv
}

func (e *Exec) findMethod(t types.Type, pkg *types.Package, name string) *ssa.Function {
	sel := e.prog.MethodSets.MethodSet(t).Lookup(pkg, name)
	if sel == nil {
		return nil
	}
	return e.prog.MethodValue(sel)
}

func atomicField(fn *ssa.Function) int {
	st := fn.Signature.Recv().Type().(*types.Pointer).Elem().Underlying().(*types.Struct)
	for i := 0; i < st.NumFields(); i++ {
		if st.Field(i).Name() == "v" {
			return i
		}
	}
	panic(unsupported{"atomic type layout"})
}

func (e *Exec) syncIntrinsic(fn *ssa.Function, name string, args []Value) (Value, bool) {
	switch {
	case name == "(*sync.Mutex).Lock" || name == "(*sync.RWMutex).Lock":
		e.schedPoint("lock")
		l := e.lockOf(args[0].(PtrV))
		e.block("mutex", func() bool { return !l.locked && l.readers == 0 })
		l.locked = true
		return nil, true
	case name == "(*sync.Mutex).Unlock" || name == "(*sync.RWMutex).Unlock":
		e.lockOf(args[0].(PtrV)).locked = false
		e.schedPoint("unlock")
		return nil, true
	case name == "(*sync.WaitGroup).Add" || name == "(*sync.WaitGroup).Done":
		l := e.lockOf(args[0].(PtrV))
		if name == "(*sync.WaitGroup).Done" {
			l.readers--
		} else {
			l.readers += e.concInt(args[1])
		}
		if l.readers < 0 {
			panic(goPanic{msg: "sync: negative WaitGroup counter"})
		}
		e.schedPoint("wg")
		return nil, true
	case name == "(*sync.WaitGroup).Wait":
		l := e.lockOf(args[0].(PtrV))
		e.schedPoint("wg.wait")
		e.block("waitgroup", func() bool { return l.readers == 0 })
		return nil, true
	case name == "(*sync.WaitGroup).Go":
		l := e.lockOf(args[0].(PtrV))
		l.readers++
		fnv := args[1]
		e.spawn(NativeFn(func([]Value) Value {
			e.call(fnv, nil, "wg.Go")
			l.readers--
			return nil
		}), nil)
		return nil, true
	case name == "(*sync.Pool).Put":
		return nil, true
	case name == "(*sync.Pool).Get":
		// no pooling: a fresh value from New, or nil
		pp := args[0].(PtrV)
		st := fn.Signature.Recv().Type().(*types.Pointer).Elem().Underlying().(*types.Struct)
		for i := 0; i < st.NumFields(); i++ {
			if st.Field(i).Name() == "New" {
				nf := e.load(PtrV{Obj: pp.Obj, Path: append(append([]int{}, pp.Path...), i)})
				if c, ok := nf.(ClosureV); ok && c.Fn == nil {
					return IfaceV{}, true
				}
				return e.call(nf, nil, "sync.Pool.New"), true
			}
		}
		return IfaceV{}, true
	case name == "(*sync.Once).Do":
		l := e.lockOf(args[0].(PtrV))
		e.schedPoint("once")
		if !l.locked {
			l.locked = true
			e.call(args[1], nil, "once.Do")
		}
		return nil, true
	case name == "runtime.GOMAXPROCS" || name == "runtime.NumCPU":
		return IntV{T: e.P.BV(64, 1), Signed: true}, true
	case name == "runtime.Gosched":
		e.schedPoint("gosched")
		return nil, true
	case name == "(*sync.Mutex).TryLock":
		e.schedPoint("trylock")
		l := e.lockOf(args[0].(PtrV))
		if l.locked {
			return BoolV{e.P.Bool(false)}, true
		}
		l.locked = true
		return BoolV{e.P.Bool(true)}, true
	case name == "(*sync.RWMutex).RLock":
		e.schedPoint("rlock")
		l := e.lockOf(args[0].(PtrV))
		e.block("rwmutex", func() bool { return !l.locked })
		l.readers++
		return nil, true
	case name == "(*sync.RWMutex).RUnlock":
		e.lockOf(args[0].(PtrV)).readers--
		e.schedPoint("runlock")
		return nil, true
	case strings.HasPrefix(name, "(*sync/atomic."):
		p := args[0].(PtrV)
		cell := PtrV{Obj: p.Obj, Path: append(append([]int{}, p.Path...), atomicField(fn))}
		e.schedPoint("atomic")
		switch fn.Name() {
		case "Load":
			return e.load(cell), true
		case "Store":
			e.store(cell, args[1])
			return nil, true
		case "CompareAndSwap":
			cur := e.load(cell)
			if e.decide(e.valueEq(cur, args[1])) {
				e.store(cell, args[2])
				return BoolV{e.P.Bool(true)}, true
			}
			return BoolV{e.P.Bool(false)}, true
		case "Swap":
			old := e.load(cell)
			e.store(cell, args[1])
			return old, true
		case "Add":
			nv := e.binop(token.ADD, e.load(cell), args[1], nil)
			e.store(cell, nv)
			return nv, true
		}
	case name == "context.WithCancel" || name == "context.WithCancelCause":
		c := e.ctxNew(e.ctxOf(args[0]), true)
		cancel := NativeFn(func(a []Value) Value {
			e.schedPoint("cancel")
			if len(a) == 1 { // CancelCauseFunc
				if cz, ok := a[0].(IfaceV); ok && cz.T != nil {
					e.ctxFinish(c, e.ctxGlobalErr("Canceled"), cz)
					return nil
				}
			}
			e.ctxCancel(c)
			return nil
		})
		return TupleV{e.ctxIface(c), cancel}, true
	case name == "context.WithTimeout" || name == "context.WithDeadline" || name == "context.WithTimeoutCause" || name == "context.WithDeadlineCause":
		c := e.ctxNew(e.ctxOf(args[0]), true)
		if strings.Contains(name, "Timeout") {
			c.deadline = e.timeAdd(e.now().NS, args[1].(IntV).T)
		} else {
			c.deadline = args[1].(TimeV).NS
		}
		if strings.HasSuffix(name, "Cause") {
			c.dlCause = args[2].(IfaceV)
		}
		// an earlier deadline of an ancestor wins
		for a := c.parent; a != nil; a = a.parent {
			if a.deadline != nil {
				c.deadline = e.P.Ite(e.P.Cmp("bvslt", a.deadline, c.deadline), a.deadline, c.deadline)
				break
			}
		}
		e.timers = append(e.timers, &timerEnt{deadline: c.deadline, ctx: c})
		cancel := NativeFn(func([]Value) Value { e.schedPoint("cancel"); e.ctxCancel(c); return nil })
		return TupleV{e.ctxIface(c), cancel}, true
	case name == "context.WithValue":
		c := e.ctxNew(e.ctxOf(args[0]), false)
		c.isVal, c.key, c.val = true, args[1], args[2]
		return e.ctxIface(c), true
	case name == "context.WithoutCancel":
		c := e.ctxNew(nil, false)
		return e.ctxIface(c), true
	case name == "context.Cause":
		return e.ctxCause(e.ctxOf(args[0])), true
	case name == "context.Background" || name == "context.TODO":
		if e.bgCtx == nil {
			e.bgCtx = e.ctxNew(nil, false)
		}
		return e.ctxIface(e.bgCtx), true
	}
	return nil, false
}

func (e *Exec) ctxMethod(c *CtxV, name string, args []Value) Value {
	switch name {
	case "Done":
		for x := c; x != nil; x = x.parent {
			if x.done != nil {
				return ChanV{C: x.done}
			}
		}
		return ChanV{}
	case "Err":
		return e.ctxErr(c)
	case "Deadline":
		for x := c; x != nil; x = x.parent {
			if x.deadline != nil {
				return TupleV{TimeV{NS: x.deadline}, BoolV{e.P.Bool(true)}}
			}
		}
		return TupleV{e.zero(e.namedType("time", "Time")), BoolV{e.P.Bool(false)}}
	case "Value":
		for x := c; x != nil; x = x.parent {
			if x.isVal && e.decide(e.keyEq(x.key, args[0])) {
				return x.val
			}
		}
		return IfaceV{}
	}
	panic(unsupported{"context method " + name})
}
