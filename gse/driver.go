package main

import (
	"fmt"
	"hash/fnv"
	"os"
	"sort"
	"strconv"
	"strings"
	"sync"
	"time"

	"golang.org/x/tools/go/packages"
	"golang.org/x/tools/go/ssa"
	"golang.org/x/tools/go/ssa/ssautil"
)

type PathSample struct {
	Values map[string][]uint64
	Clock0 int64
	Gates  []string
	Trace  []string
	Path   []int
}

type UnitResult struct {
	KnownSeen      map[string]int // counterexamples per recorded finding
	NewViols       int            // counterexamples outside every recorded finding
	Unit           *Unit
	Tier           string
	Cfg            *TierCfg
	LoadS          float64
	ExploreS       float64
	Paths          int
	Aborted        int
	Steps          int
	Decisions      int
	SymDecisions   int
	Queries        int
	Sat            int
	Unsat          int
	Unknown        int
	SolverS        float64
	ByBackend      map[string]int
	Asserts        int
	AssertsUnsat   int
	AssertsTrivial int
	Reached        map[string]bool
	FuncSteps      map[string]int
	Viols          []Violation
	Unsup          []string
	AbortReasons   map[string]int
	Samples        []PathSample
	Truncated      bool
	Switches       int
	MaxThreads     int
}

type loaded struct {
	prog *ssa.Program
	pkg  *ssa.Package
}

func loadProgram(u *Unit, ov map[string][]byte) (*loaded, error) {
	cfg := &packages.Config{Mode: packages.LoadAllSyntax, Dir: repoDir, Overlay: ov,
		Env: append(os.Environ(), "GOFLAGS=-mod=mod", "GOPROXY=off", "GOSUMDB=off", "GOTOOLCHAIN=local")}
	pkgs, err := packages.Load(cfg, u.ImportPath())
	if err != nil {
		return nil, err
	}
	var errs []string
	packages.Visit(pkgs, nil, func(p *packages.Package) {
		for _, e := range p.Errors {
			errs = append(errs, e.Error())
		}
	})
	if len(errs) > 0 {
		return nil, fmt.Errorf("package errors:\n  %s", strings.Join(errs, "\n  "))
	}
	prog, spkgs := ssautil.AllPackages(pkgs, ssa.InstantiateGenerics)
	prog.Build()
	var tp *ssa.Package
	for _, p := range spkgs {
		if p != nil && p.Pkg.Path() == u.ImportPath() {
			tp = p
		}
	}
	if tp == nil {
		return nil, fmt.Errorf("package %s not loaded", u.ImportPath())
	}
	if tp.Func(u.Harness) == nil {
		return nil, fmt.Errorf("harness %s not found in %s", u.Harness, u.ImportPath())
	}
	return &loaded{prog, tp}, nil
}

type workQ struct {
	mu    sync.Mutex
	cond  *sync.Cond
	items [][]int
	busy  int
	stop  bool
}

func (q *workQ) get() ([]int, bool) {
	q.mu.Lock()
	defer q.mu.Unlock()
	for {
		if q.stop {
			return nil, false
		}
		if n := len(q.items); n > 0 {
			it := q.items[n-1]
			q.items = q.items[:n-1]
			q.busy++
			return it, true
		}
		if q.busy == 0 {
			q.cond.Broadcast()
			return nil, false
		}
		q.cond.Wait()
	}
}

func (q *workQ) done(more [][]int) {
	q.mu.Lock()
	q.items = append(q.items, more...)
	q.busy--
	q.mu.Unlock()
	q.cond.Broadcast()
}

func pathHash(p []int, seed int64) uint32 {
	h := fnv.New32a()
	fmt.Fprint(h, seed, p)
	return h.Sum32()
}

// explore runs the harness over every feasible path within the bounds of the tier.
func explore(ld *loaded, u *Unit, tc *TierCfg, seed int64, smtlog string) *UnitResult {
	res := &UnitResult{Unit: u, Cfg: tc, KnownSeen: map[string]int{}, Reached: map[string]bool{}, FuncSteps: map[string]int{}, AbortReasons: map[string]int{}, ByBackend: map[string]int{}}
	h := ld.pkg.Func(u.Harness)
	workers := tc.Workers
	if workers <= 0 {
		workers = 12
	}
	if w, err := strconv.Atoi(os.Getenv("GSE_WORKERS")); err == nil && w > 0 {
		workers = w // seed triage next to another run
	}
	maxPaths := tc.MaxPaths
	if maxPaths <= 0 {
		maxPaths = 2_000_000
	}
	q := &workQ{items: [][]int{{}}}
	q.cond = sync.NewCond(&q.mu)
	var mu sync.Mutex
	var wg sync.WaitGroup
	t1 := time.Now()
	cfg := &RunCfg{Params: tc.Params, Unwind: tc.Unwind, PBound: tc.PBound, Sched: u.Sched, MaxSteps: 5_000_000, ZZPath: zzPkgPath, ConcreteClock: u.Clock == "concrete"}
	if tc.MaxSteps > 0 {
		cfg.MaxSteps = tc.MaxSteps
	}
	if cfg.Params == nil {
		cfg.Params = map[string]int{}
	}
	stopProgress := make(chan struct{})
	go func() {
		tk := time.NewTicker(20 * time.Second)
		defer tk.Stop()
		for {
			select {
			case <-stopProgress:
				return
			case <-tk.C:
				mu.Lock()
				q.mu.Lock()
				fmt.Fprintf(os.Stderr, "  [progress %s] paths=%d queued=%d counterexamples=%d steps=%d\n", u.Name, res.Paths, len(q.items), len(res.Viols), res.Steps)
				q.mu.Unlock()
				mu.Unlock()
			}
		}
	}()
	for w := 0; w < workers; w++ {
		wg.Add(1)
		go func(w int) {
			defer wg.Done()
			var logw *os.File
			if smtlog != "" {
				logw, _ = os.Create(fmt.Sprintf("%s.%s.w%d.smt2", smtlog, u.Name, w))
				defer logw.Close()
			}
			var sol *Portfolio
			var err error
			if logw != nil {
				sol, err = NewPortfolio(u.Solver, logw)
			} else {
				sol, err = NewPortfolio(u.Solver, nil)
			}
			if err != nil {
				mu.Lock()
				res.Unsup = append(res.Unsup, "solver start: "+err.Error())
				mu.Unlock()
				return
			}
			defer sol.Close()
			pool := NewPool()
			funcSteps := map[string]int{}
			for {
				prefix, ok := q.get()
				if !ok {
					break
				}
				e := &Exec{P: pool, S: sol, cfg: cfg, prog: ld.prog, pkg: ld.pkg, globals: map[*ssa.Global]*Object{}, prefix: prefix,
					strIDs: map[string]uint64{}, Reached: map[string]bool{}, FuncSteps: funcSteps, obsTerms: map[int]*Term{}, unwind: map[unwindKey]int{},
					initing: map[*ssa.Package]bool{}}
				var aborted string
				var unsup string
				func() {
					defer func() {
						if r := recover(); r != nil {
							switch x := r.(type) {
							case pathAbort:
								aborted = x.reason
							case goPanic:
								r, model, _ := sol.Check(e.pc, e.wantTerms())
								if r == "sat" {
									e.Viol = append(e.Viol, e.mkViolation("panic", x.msg+e.panicText(&x), model))
								} else if r != "unsat" {
									unsup = "solver unknown at panic " + x.msg
								}
							case deadlock:
								r, model, _ := sol.Check(e.pc, e.wantTerms())
								if r == "sat" {
									e.Viol = append(e.Viol, e.mkViolation("deadlock", x.what+" "+strings.Join(e.blockedThreads(), ","), model))
								} else if r != "unsat" {
									unsup = "solver unknown at deadlock"
								}
							case unsupported:
								unsup = x.what
							default:
								panic(r)
							}
						}
					}()
					defer e.killThreads()
					e.initSched()
					e.callFn(h, nil, nil)
				}()
				var sample *PathSample
				if aborted == "" && unsup == "" && len(e.Viol) == 0 && tc.Validate > 0 && pathHash(e.taken, seed)%4 == 0 {
					mu.Lock()
					need := len(res.Samples) < tc.Validate
					mu.Unlock()
					if need {
						r, model, _ := sol.Check(e.pc, e.wantTerms())
						if r == "sat" {
							v := e.mkViolation("sample", "", model)
							sample = &PathSample{Values: v.Values, Clock0: v.Clock0, Gates: v.Gates, Trace: v.Trace, Path: v.Path}
						}
					}
				}
				mu.Lock()
				if os.Getenv("GSE_DEBUG_PATHS") != "" {
					fmt.Printf("PATH taken=%v gates=%v reached=%v aborted=%q viol=%d\n", e.taken, e.gates, e.reachedNow, aborted, len(e.Viol))
				}
				res.Paths++
				res.Steps += e.steps
				res.Decisions += len(e.taken) - len(prefix)
				res.SymDecisions += e.symDecisions
				res.Asserts += e.Asserts
				res.AssertsUnsat += e.AssertsUnsat
				res.AssertsTrivial += e.AssertsTrivial
				if e.Sc != nil {
					res.Switches += e.Sc.switches
					if n := len(e.Sc.threads); n > res.MaxThreads {
						res.MaxThreads = n
					}
				}
				for _, l := range e.reachedNow {
					res.Reached[l] = true
				}
				if aborted != "" {
					res.Aborted++
					res.AbortReasons[aborted]++
				}
				if unsup != "" {
					res.Unsup = append(res.Unsup, unsup)
				}
				for _, v := range e.Viol {
					if v.Known != "" {
						// counterexamples of a recorded finding do not end the exploration (everything else must
						// still be looked at); a bounded number of them is kept for the native confirmation
						res.KnownSeen[v.Known]++
						if res.KnownSeen[v.Known] > 60 {
							continue
						}
					} else {
						res.NewViols++
					}
					res.Viols = append(res.Viols, v)
				}
				if sample != nil && len(res.Samples) < tc.Validate {
					res.Samples = append(res.Samples, *sample)
				}
				stop := res.Paths >= maxPaths || len(res.Unsup) > 20 || res.NewViols > 200
				if res.Paths >= maxPaths {
					res.Truncated = true
				}
				mu.Unlock()
				if stop {
					q.mu.Lock()
					q.stop = true
					q.mu.Unlock()
					q.cond.Broadcast()
				}
				q.done(e.alts)
			}
			mu.Lock()
			qn, sat, unsat, unk, st, by := sol.Stats()
			res.Queries += qn
			res.Sat += sat
			res.Unsat += unsat
			res.Unknown += unk
			res.SolverS += st.Seconds()
			for k, v := range by {
				res.ByBackend[k] += v
			}
			for k, v := range funcSteps {
				res.FuncSteps[k] += v
			}
			mu.Unlock()
		}(w)
	}
	wg.Wait()
	close(stopProgress)
	res.ExploreS = time.Since(t1).Seconds()
	sort.Slice(res.Viols, func(i, j int) bool { return fmt.Sprint(res.Viols[i].Path) < fmt.Sprint(res.Viols[j].Path) })
	return res
}

func (e *Exec) panicText(gp *goPanic) string {
	if gp.v == nil {
		return ""
	}
	if iv, ok := gp.v.(IfaceV); ok && iv.T != nil {
		if s, ok := iv.V.(StrV); ok && s.isConc() {
			return ": " + s.C
		}
		return ": value of type " + iv.T.String()
	}
	return ""
}
