package main

import (
	"encoding/json"
	"fmt"
	"os"
	"path/filepath"
	"sort"
)

func writeEvidence(spec *Spec, tier string, seed int64, results []*UnitResult, canaries []canaryResult, knownConfirmed, inconclusive []string,
	violations, validated, replays int, nativeS, wall float64, status int) error {
	level := spec.Level
	cov := map[string]interface{}{}
	var paths, steps, trans, queries, sat, unsat, unknown, asserts, assertsUnsat, trivial, aborted int
	var solverS, exploreS, loadS float64
	by := map[string]int{}
	funcs := map[string]int{}
	labels := map[string]bool{}
	bounds := map[string]interface{}{}
	var samples []interface{}
	units := []interface{}{}
	stubs := []string{}
	for _, r := range results {
		paths += r.Paths
		steps += r.Steps
		trans += r.Decisions
		queries += r.Queries
		sat += r.Sat
		unsat += r.Unsat
		unknown += r.Unknown
		asserts += r.Asserts
		assertsUnsat += r.AssertsUnsat
		trivial += r.AssertsTrivial
		aborted += r.Aborted
		solverS += r.SolverS
		exploreS += r.ExploreS
		loadS += r.LoadS
		for k, v := range r.ByBackend {
			by[k] += v
		}
		for k, v := range r.FuncSteps {
			funcs[k] += v
		}
		for k := range r.Reached {
			labels[r.Unit.Name+":"+k] = true
		}
		b := map[string]interface{}{"params": r.Cfg.Params, "unwind": r.Cfg.Unwind, "preemption_bound": r.Cfg.PBound, "scheduler": r.Unit.Sched, "described": r.Unit.Bounds}
		bounds[r.Unit.Name] = b
		for i, s := range r.Samples {
			if i >= 3 {
				break
			}
			samples = append(samples, map[string]interface{}{"unit": r.Unit.Name, "kind": "explored path (model of its path condition)", "inputs": s.Values, "clock0": s.Clock0, "gates": s.Gates, "trace": s.Trace, "decisions": s.Path})
		}
		for i, v := range r.Viols {
			if i >= 2 {
				break
			}
			samples = append(samples, map[string]interface{}{"unit": r.Unit.Name, "kind": "counterexample (" + v.Kind + ")", "msg": v.Msg, "known_class": v.Known, "inputs": v.Values, "gates": v.Gates, "decisions": v.Path})
		}
		for _, s := range r.Unit.Stubs {
			stubs = append(stubs, s.File+":"+s.Func)
		}
		units = append(units, map[string]interface{}{"unit": r.Unit.Name, "package": r.Unit.ImportPath(), "harness": r.Unit.Harness, "paths": r.Paths, "aborted_by_assumption": r.Aborted,
			"ssa_steps": r.Steps, "queries": r.Queries, "asserts": r.Asserts, "asserts_unsat": r.AssertsUnsat, "asserts_folded": r.AssertsTrivial, "counterexample_models": len(r.Viols),
			"load_s": r.LoadS, "explore_s": r.ExploreS, "solver_s": r.SolverS, "threads_max": r.MaxThreads, "context_switches": r.Switches})
	}
	if len(samples) == 0 {
		samples = append(samples, map[string]interface{}{"note": "no path sampled in this tier; see units[] for what was explored"})
	}
	var fnames []string
	for f := range funcs {
		fnames = append(fnames, f)
	}
	sort.Slice(fnames, func(i, j int) bool { return funcs[fnames[i]] > funcs[fnames[j]] })
	fenc := []interface{}{}
	for i, f := range fnames {
		if i >= 120 {
			break
		}
		fenc = append(fenc, map[string]interface{}{"fn": f, "ssa_instructions_executed": funcs[f]})
	}
	var ls []string
	for l := range labels {
		ls = append(ls, l)
	}
	sort.Strings(ls)

	obligations := asserts + trivial
	discharged := assertsUnsat + trivial
	cov["states"] = trans + len(results)
	cov["transitions"] = trans
	cov["traces_validated_against_impl"] = validated
	cov["samples"] = samples
	cov["obligations"] = obligations
	cov["discharged"] = discharged
	cov["checker_cmd"] = fmt.Sprintf("/verif/check %s %s   (solver processes: %v)", spec.ID, tier, keys(by))
	cov["trusted_base"] = append([]string{"golang.org/x/tools/go/ssa v0.50.0 (front end)", "gse executor + intrinsics (/verif/gse)", "harness + oracle (/verif/props/" + spec.ID + ")", "z3 4.8.12 / cvc5 1.0.3", "go1.26.8 tool chain for native replay"}, spec.TrustedBase...)
	cov["evaluations"] = paths
	cov["distinct_nontrivial"] = paths - aborted
	cov["rule"] = "one evaluation = one feasible path class of the harness through the real SSA (a distinct vector of branch/scheduler/concretisation decisions); every path explored is distinct; non-trivial = not cut by an Assume"
	cov["exhaustive"] = status == 0
	cov["explanation"] = "bounded symbolic execution of the real code from go/ssa: on each path class the symbolic inputs (integers, instants, durations) are decided for all their values by the SMT solver (unsat = holds); discrete choices (catalogue picks, operation sequences, crash points, scheduler decisions) are enumerated exhaustively within the stated bounds - see queries.total for how much of this run was the solver's"
	cov["paths"] = paths
	cov["ssa_steps"] = steps
	cov["queries"] = map[string]interface{}{"total": queries, "sat": sat, "unsat": unsat, "unknown": unknown, "by_backend": by}
	cov["solver_s"] = solverS
	cov["explore_s"] = exploreS
	cov["load_s"] = loadS
	cov["native_s"] = nativeS
	cov["native_replays"] = replays
	cov["functions_encoded"] = fenc
	cov["functions_encoded_count"] = len(fnames)
	cov["bounds"] = bounds
	cov["outside_bounds"] = spec.Outside
	cov["witness_labels"] = ls
	cov["canaries"] = canaries
	cov["solver_cross_checks"] = crossChecksOut
	cov["known_findings_confirmed"] = knownConfirmed
	cov["stubs"] = stubs
	var ys []string
	for k := range yieldsSkipped {
		ys = append(ys, k)
	}
	sort.Strings(ys)
	cov["overlay_yield_points_skipped"] = ys
	cov["units"] = units
	cov["inconclusive"] = inconclusive
	cov["exit_status"] = status

	ev := map[string]interface{}{
		"property_id": spec.ID,
		"tier":        tier,
		"seed":        seed,
		"level":       level,
		"coverage":    cov,
		"assumptions": spec.Assumptions,
		"wall_s":      wall,
		"violations":  violations,
	}
	b, err := json.MarshalIndent(ev, "", " ")
	if err != nil {
		return err
	}
	os.MkdirAll(filepath.Join(verifDir, "evidence"), 0o755)
	return os.WriteFile(filepath.Join(verifDir, "evidence", spec.ID+".json"), b, 0o644)
}

func keys(m map[string]int) []string {
	var ks []string
	for k := range m {
		ks = append(ks, k)
	}
	sort.Strings(ks)
	return ks
}
