package main

import (
	"fmt"
	"go/types"

	"golang.org/x/tools/go/ssa"
)

// ---- threads: each interpreted goroutine is a real goroutine, exactly one holds the baton ----

type Thread struct {
	id      int
	wake    chan struct{}
	done    bool
	blocked func() bool // nil: runnable
	what    string
	parked  string // non-empty: parked at this gate (gates mode)

	depth      int
	deferStack []*frame
}

type threadKill struct{}

type Sched struct {
	threads     []*Thread
	cur         *Thread
	dead        bool
	fault       interface{}
	preemptions int
	bound       int
	mode        string
	trace       []string
	switches    int
}

func (e *Exec) initSched() {
	main := &Thread{id: 0, wake: make(chan struct{}, 1)}
	mode := e.cfg.Sched
	if mode == "" {
		mode = "runtoblock"
	}
	e.Sc = &Sched{threads: []*Thread{main}, cur: main, bound: e.cfg.PBound, mode: mode}
}

func (e *Exec) curThread() *Thread { return e.Sc.cur }

// runnable: not finished, not blocked (parked threads count as runnable: the scheduler can release them).
func (e *Exec) runnable(t *Thread) bool {
	return !t.done && (t.blocked == nil || t.blocked())
}

// chooseN is an n-way exploration decision (all options feasible).
func (e *Exec) chooseN(n int) int {
	if n <= 1 {
		return 0
	}
	pos := len(e.taken)
	if pos < len(e.prefix) {
		e.taken = append(e.taken, e.prefix[pos])
		return e.prefix[pos]
	}
	for i := 1; i < n; i++ {
		e.alts = append(e.alts, append(append([]int{}, e.taken...), i))
	}
	e.taken = append(e.taken, 0)
	return 0
}

func (e *Exec) switchTo(next *Thread) {
	cur := e.Sc.cur
	if next == cur {
		return
	}
	e.Sc.switches++
	e.Sc.cur = next
	next.wake <- struct{}{}
	if cur.done {
		return
	}
	<-cur.wake
	if cur.id == 0 {
		e.checkFault()
	} else if e.Sc.dead {
		panic(threadKill{})
	}
}

// others returns the runnable threads other than cur, split into free-running and gate-parked ones.
func (e *Exec) others(cur *Thread) (free, parked []*Thread) {
	for _, t := range e.Sc.threads {
		if t == cur || !e.runnable(t) {
			continue
		}
		if t.parked != "" {
			parked = append(parked, t)
		} else {
			free = append(free, t)
		}
	}
	return
}

func (e *Exec) release(t *Thread) {
	if t.parked != "" {
		e.gates = append(e.gates, t.parked)
		t.parked = ""
	}
}

// pickOther chooses the thread to run while cur cannot (blocked, finished or quiescing).
// nil: nobody can run.
func (e *Exec) pickOther(cur *Thread) *Thread {
	free, parked := e.others(cur)
	switch e.Sc.mode {
	case "all":
		opts := append(free, parked...)
		if len(opts) == 0 {
			return nil
		}
		t := opts[e.chooseN(len(opts))]
		e.release(t)
		return t
	default:
		if len(free) > 0 {
			return free[0] // lowest id; free-running segments are not interleaved (stated assumption)
		}
		if len(parked) == 0 {
			return nil
		}
		t := parked[e.chooseN(len(parked))]
		e.release(t)
		return t
	}
}

// schedPoint: the current thread is runnable but may be pre-empted here ("all" mode only).
func (e *Exec) schedPoint(what string) {
	if e.Sc == nil || len(e.Sc.threads) == 1 || e.Sc.mode != "all" {
		return
	}
	cur := e.Sc.cur
	opts := []*Thread{cur}
	if e.Sc.preemptions < e.Sc.bound {
		for _, t := range e.Sc.threads {
			if t != cur && e.runnable(t) {
				opts = append(opts, t)
			}
		}
	}
	k := e.chooseN(len(opts))
	if k != 0 {
		e.Sc.preemptions++
		e.Sc.trace = append(e.Sc.trace, fmt.Sprintf("preempt T%d@%s->T%d", cur.id, what, opts[k].id))
		e.switchTo(opts[k])
	}
}

// gate: a labelled scheduling point of the environment.
func (e *Exec) gate(label string) {
	if e.Sc == nil || e.Sc.mode == "runtoblock" {
		return
	}
	cur := e.Sc.cur
	if e.Sc.mode == "all" {
		e.schedPoint("gate:" + label)
		e.gates = append(e.gates, label)
		return
	}
	// gates mode: park; everything free-running runs first; then one parked thread is released.
	cur.parked = label
	for cur.parked != "" {
		free, parked := e.others(cur)
		if len(free) > 0 {
			e.switchTo(free[0])
			continue
		}
		opts := []*Thread{cur}
		if e.Sc.preemptions < e.Sc.bound {
			opts = append(opts, parked...)
		}
		k := e.chooseN(len(opts))
		t := opts[k]
		e.release(t)
		if t != cur {
			e.Sc.preemptions++
			e.Sc.trace = append(e.Sc.trace, fmt.Sprintf("T%d parked@%s, released T%d", cur.id, label, t.id))
			e.switchTo(t)
		}
	}
}

// block: the current thread waits until pred holds.
func (e *Exec) block(what string, pred func() bool) {
	cur := e.Sc.cur
	for !pred() {
		cur.blocked = pred
		cur.what = what
		next := e.pickOther(cur)
		if next == nil {
			if e.fireTimer() {
				cur.blocked = nil
				continue
			}
			cur.blocked = nil
			panic(deadlock{fmt.Sprintf("T%d blocked on %s", cur.id, what)})
		}
		e.switchTo(next)
		cur.blocked = nil
	}
	cur.blocked = nil
}

type deadlock struct{ what string }

func (e *Exec) spawn(fnv Value, args []Value) {
	t := &Thread{id: len(e.Sc.threads), wake: make(chan struct{}, 1)}
	e.Sc.threads = append(e.Sc.threads, t)
	go func() {
		<-t.wake
		defer func() {
			r := recover()
			if _, ok := r.(threadKill); ok {
				return
			}
			t.done = true
			giveMain := func(f interface{}) {
				e.Sc.fault = f
				e.Sc.dead = true
				e.Sc.cur = e.Sc.threads[0]
				e.Sc.threads[0].wake <- struct{}{}
			}
			if r != nil {
				giveMain(r)
				return
			}
			// hand the baton to someone runnable
			var next *Thread
			func() {
				defer func() {
					if r := recover(); r != nil {
						e.Sc.fault = r
					}
				}()
				next = e.pickOther(t)
			}()
			if e.Sc.fault != nil {
				giveMain(e.Sc.fault)
				return
			}
			for next == nil && e.fireTimer() {
				func() {
					defer func() {
						if r := recover(); r != nil {
							e.Sc.fault = r
						}
					}()
					next = e.pickOther(t)
				}()
			}
			if e.Sc.fault != nil {
				giveMain(e.Sc.fault)
				return
			}
			if next == nil {
				giveMain(deadlock{"all threads blocked after thread exit"})
				return
			}
			e.Sc.cur = next
			next.wake <- struct{}{}
		}()
		if e.Sc.dead {
			panic(threadKill{})
		}
		e.call(fnv, args, "go")
	}()
	e.schedPoint("go")
}

// after being woken, the main thread must check for faults raised in other threads
func (e *Exec) checkFault() {
	if e.Sc != nil && e.Sc.fault != nil {
		f := e.Sc.fault
		e.Sc.fault = nil
		panic(f)
	}
}

// killThreads releases all parked goroutines at the end of a path.
func (e *Exec) killThreads() {
	if e.Sc == nil {
		return
	}
	e.Sc.dead = true
	for _, t := range e.Sc.threads[1:] {
		if !t.done {
			select {
			case t.wake <- struct{}{}:
			default:
			}
		}
	}
}

// quiesce: main waits until every other thread is blocked or finished.
func (e *Exec) quiesce() {
	cur := e.Sc.cur
	for {
		next := e.pickOther(cur)
		if next == nil {
			return
		}
		cur.blocked = func() bool { return e.noOtherRunnable(cur) }
		cur.what = "quiesce"
		e.switchTo(next)
		cur.blocked = nil
	}
}

func (e *Exec) noOtherRunnable(self *Thread) bool {
	for _, t := range e.Sc.threads {
		if t != self && !t.done && (t.blocked == nil || t.blocked()) {
			return false
		}
	}
	return true
}

// blockedThreads describes the threads that are blocked (for deadlock / quiescence oracles).
func (e *Exec) blockedThreads() []string {
	var out []string
	for _, t := range e.Sc.threads {
		if !t.done && t.blocked != nil && !t.blocked() {
			out = append(out, fmt.Sprintf("T%d:%s", t.id, t.what))
		}
	}
	return out
}

// ---- channels ----

type sendItem struct {
	v     Value
	taken bool
}
type ChanObj struct {
	cap         int
	buf         []Value
	sendq       []*sendItem
	closed      bool
	recvWaiting int
	elem        types.Type
}
type ChanV struct{ C *ChanObj }

func (c *ChanObj) recvReady() bool { return len(c.buf) > 0 || len(c.sendq) > 0 || c.closed }
func (c *ChanObj) sendReady() bool {
	return c.closed || (c.cap > 0 && len(c.buf) < c.cap) || (c.cap == 0 && c.recvWaiting > 0)
}

func (e *Exec) chanSend(ch ChanV, v Value) {
	e.schedPoint("send")
	if ch.C == nil {
		e.block("send on nil chan", func() bool { return false })
	}
	c := ch.C
	if c.cap > 0 {
		e.block("chan send", func() bool { return c.closed || len(c.buf) < c.cap })
		if c.closed {
			panic(goPanic{msg: "send on closed channel"})
		}
		c.buf = append(c.buf, v)
		return
	}
	if c.closed {
		panic(goPanic{msg: "send on closed channel"})
	}
	it := &sendItem{v: v}
	c.sendq = append(c.sendq, it)
	e.block("chan send (unbuffered)", func() bool { return it.taken || c.closed })
	if !it.taken {
		panic(goPanic{msg: "send on closed channel"})
	}
}

func (e *Exec) chanTake(c *ChanObj) (Value, bool) {
	if len(c.buf) > 0 {
		v := c.buf[0]
		c.buf = c.buf[1:]
		return v, true
	}
	if len(c.sendq) > 0 {
		it := c.sendq[0]
		c.sendq = c.sendq[1:]
		it.taken = true
		return it.v, true
	}
	return e.zero(c.elem), false // closed
}

func (e *Exec) chanRecv(ch ChanV) (Value, bool) {
	e.schedPoint("recv")
	if ch.C == nil {
		e.block("recv on nil chan", func() bool { return false })
	}
	c := ch.C
	c.recvWaiting++
	e.block("chan recv", c.recvReady)
	c.recvWaiting--
	return e.chanTake(c)
}

func (e *Exec) doSelect(fr *frame, x *ssa.Select) Value {
	e.schedPoint("select")
	type st struct {
		c    *ChanObj
		send bool
		v    Value
	}
	var states []st
	for _, s := range x.States {
		cv := e.get(fr, s.Chan).(ChanV)
		item := st{c: cv.C, send: s.Dir == types.SendOnly}
		if item.send {
			item.v = e.get(fr, s.Send)
		}
		states = append(states, item)
	}
	ready := func() []int {
		var r []int
		for i, s := range states {
			if s.c == nil {
				continue
			}
			if (s.send && s.c.sendReady()) || (!s.send && s.c.recvReady()) {
				r = append(r, i)
			}
		}
		return r
	}
	r := ready()
	if len(r) == 0 {
		if !x.Blocking {
			return e.selectResult(x, -1, nil, false)
		}
		for _, s := range states {
			if s.c != nil && !s.send {
				s.c.recvWaiting++
			}
		}
		e.block("select", func() bool { return len(ready()) > 0 })
		for _, s := range states {
			if s.c != nil && !s.send {
				s.c.recvWaiting--
			}
		}
		r = ready()
	}
	idx := r[e.chooseN(len(r))]
	s := states[idx]
	if s.send {
		if s.c.closed {
			panic(goPanic{msg: "send on closed channel"})
		}
		if s.c.cap > 0 {
			s.c.buf = append(s.c.buf, s.v)
		} else {
			s.c.sendq = append(s.c.sendq, &sendItem{v: s.v})
		}
		return e.selectResult(x, idx, nil, false)
	}
	v, ok := e.chanTake(s.c)
	return e.selectResult(x, idx, v, ok)
}

func (e *Exec) selectResult(x *ssa.Select, idx int, v Value, ok bool) Value {
	tv := TupleV{IntV{T: e.P.BV(64, uint64(int64(idx))), Signed: true}, BoolV{e.P.Bool(ok)}}
	for i, s := range x.States {
		if s.Dir == types.RecvOnly {
			if i == idx {
				tv = append(tv, v)
			} else {
				tv = append(tv, e.zero(s.Chan.Type().Underlying().(*types.Chan).Elem()))
			}
		}
	}
	return tv
}

// ---- maps ----

type MapObj struct {
	keys []Value
	vals []Value
	vt   types.Type
}
type MapV struct{ M *MapObj }
type mapIter struct {
	m    *MapObj
	keys []Value
	pos  int
}

func (e *Exec) mapFind(m *MapObj, k Value) int {
	for i, mk := range m.keys {
		if e.decide(e.keyEq(mk, k)) {
			return i
		}
	}
	return -1
}

func (e *Exec) keyEq(a, b Value) *Term {
	if ia, ok := a.(IfaceV); ok {
		return e.ifaceEq(ia, b.(IfaceV))
	}
	return e.valueEq(a, b)
}

// ---- context ----

// CtxV models context.Context: cancellation tree, values, deadlines. Deadlines do not fire while
// some thread can still run; when every thread is blocked the earliest live timer fires (the same
// rule testing/synctest applies to the native replay).
type CtxV struct {
	parent   *CtxV
	children []*CtxV
	done     *ChanObj // nil: not cancellable by itself (Background, WithValue)
	err      IfaceV
	cause    IfaceV
	key      Value
	val      Value
	isVal    bool
	deadline *Term // non-nil: WithTimeout / WithDeadline
	dlCause  IfaceV
	seq      int
}

func (e *Exec) ctxOf(v Value) *CtxV {
	if i, ok := v.(IfaceV); ok {
		if c, ok := i.V.(*CtxV); ok {
			return c
		}
	}
	return nil
}

func (e *Exec) ctxType() types.Type { return types.NewPointer(e.namedType("context", "cancelCtx")) }

func (e *Exec) ctxIface(c *CtxV) IfaceV { return IfaceV{T: e.ctxType(), V: c} }

func (e *Exec) ctxNew(parent *CtxV, cancellable bool) *CtxV {
	e.ctxSeq++
	c := &CtxV{parent: parent, seq: e.ctxSeq}
	if cancellable {
		c.done = &ChanObj{cap: 0, elem: types.NewStruct(nil, nil)}
	}
	if parent != nil {
		parent.children = append(parent.children, c)
		// born cancelled if an ancestor already is
		if err := e.ctxErr(parent); err.T != nil && c.done != nil {
			c.done.closed = true
			c.err = err
			c.cause = e.ctxCause(parent)
		}
	}
	return c
}

func (e *Exec) ctxErr(c *CtxV) IfaceV {
	for x := c; x != nil; x = x.parent {
		if x.done != nil && x.done.closed {
			return x.err
		}
	}
	return IfaceV{}
}

func (e *Exec) ctxCause(c *CtxV) IfaceV {
	for x := c; x != nil; x = x.parent {
		if x.done != nil && x.done.closed {
			if x.cause.T != nil {
				return x.cause
			}
			return x.err
		}
	}
	return IfaceV{}
}

func (e *Exec) ctxGlobalErr(name string) IfaceV {
	g := e.prog.ImportedPackage("context").Var(name)
	v := e.load(PtrV{Obj: e.global(g)}).(IfaceV)
	if v.T == nil {
		v = e.mkErrorMsg(StrV{C: "context " + name}, nil)
		e.store(PtrV{Obj: e.global(g)}, v)
	}
	return v
}

// ctxFinish marks c and all its descendants done.
func (e *Exec) ctxFinish(c *CtxV, err, cause IfaceV) {
	if c.done != nil {
		if c.done.closed {
			return
		}
		c.done.closed = true
		c.err = err
		c.cause = cause
	}
	for _, ch := range c.children {
		e.ctxFinish(ch, err, cause)
	}
}

func (e *Exec) ctxCancel(c *CtxV) {
	e.ctxFinish(c, e.ctxGlobalErr("Canceled"), IfaceV{})
}

// timerEnt is a pending timer: a context deadline or a time.After / NewTimer / NewTicker channel.
type timerEnt struct {
	deadline *Term
	ctx      *CtxV
	ch       *ChanObj
	period   *Term // tickers re-arm
	stopped  bool
}

func (t *timerEnt) live() bool {
	if t.stopped {
		return false
	}
	if t.ctx != nil {
		return !t.ctx.done.closed
	}
	return true
}

// fireTimer: called when no thread can run. Fires the earliest live timer; false if there is none.
func (e *Exec) fireTimer() bool {
	var best *timerEnt
	var bestOff uint64
	for _, t := range e.timers {
		if !t.live() {
			continue
		}
		_, off := splitAddConst(t.deadline)
		if best == nil || sext(off, 64) < sext(bestOff, 64) {
			best, bestOff = t, off
		}
	}
	if best == nil {
		return false
	}
	e.timerFires++
	if e.timerFires > 10000 {
		panic(unsupported{"more than 10000 timer firings on one path"})
	}
	// the clock jumps to the deadline (never backwards)
	e.now()
	late := e.P.Cmp("bvsgt", best.deadline, e.P.BinBV("bvadd", e.clock0, e.clockAdv))
	e.clockAdv = e.P.Ite(late, e.P.BinBV("bvsub", best.deadline, e.clock0), e.clockAdv)
	if best.ctx != nil {
		e.ctxFinish(best.ctx, e.ctxGlobalErr("DeadlineExceeded"), best.ctx.dlCause)
		return true
	}
	if best.ch == nil { // a sleeping thread
		best.stopped = true
		return true
	}
	if len(best.ch.buf) < best.ch.cap {
		best.ch.buf = append(best.ch.buf, TimeV{NS: best.deadline})
	}
	if best.period != nil {
		best.deadline = e.timeAdd(best.deadline, best.period)
	} else {
		best.stopped = true
	}
	return true
}

// sleep: with other threads around the sleeper blocks until its wake-up time is the earliest pending
// timer and nothing else can run; alone it simply moves the clock.
func (e *Exec) sleep(d *Term) {
	if e.Sc == nil || len(e.Sc.threads) == 1 {
		e.advance(d)
		return
	}
	if d.IsConst() && sext(d.C, 64) <= 0 {
		return
	}
	t := &timerEnt{deadline: e.timeAdd(e.now().NS, d)}
	e.timers = append(e.timers, t)
	e.block("sleep", func() bool { return t.stopped })
}

func (e *Exec) newTimerChan(d *Term, period *Term) (*timerEnt, ChanV) {
	ch := &ChanObj{cap: 1, elem: e.namedType("time", "Time")}
	t := &timerEnt{deadline: e.timeAdd(e.now().NS, d), ch: ch, period: period}
	e.timers = append(e.timers, t)
	return t, ChanV{C: ch}
}

type NativeFn func(args []Value) Value

type lockState struct {
	locked  bool
	readers int
}

func (e *Exec) lockOf(p PtrV) *lockState {
	k := fmt.Sprintf("%d%v", p.Obj.id, p.Path)
	if e.locks == nil {
		e.locks = map[string]*lockState{}
	}
	l, ok := e.locks[k]
	if !ok {
		l = &lockState{}
		e.locks[k] = l
	}
	return l
}
