package main

import (
	"bytes"
	"context"
	"encoding/json"
	"fmt"
	"os"
	"os/exec"
	"path/filepath"
	"regexp"
	"strings"
	"time"
)

// ReplayFile mirrors zzverif.Replay.
type ReplayFile struct {
	Property string              `json:"property"`
	Package  string              `json:"package"`
	Harness  string              `json:"harness"`
	Params   map[string]int      `json:"params"`
	Values   map[string][]uint64 `json:"values"`
	Clock0   int64               `json:"clock0"`
	Gates    []string            `json:"gates"`
	Expect   string              `json:"expect"`
	Trace    []string            `json:"trace"`
	Path     []int               `json:"path"`
	Note     string              `json:"note,omitempty"`
}

type Outcome struct {
	Status string   `json:"status"`
	Fails  []string `json:"fails"`
	Panic  string   `json:"panic"`
	Trace  []string `json:"trace"`
	Known  string   `json:"known"`
	Note   string   `json:"note"`
	Raw    string   `json:"-"`
}

func goEnv() []string {
	env := os.Environ()
	path := "/opt/veriftools/go1.26.8/bin:" + os.Getenv("PATH")
	return append(env, "PATH="+path, "GOFLAGS=-mod=mod", "GOPROXY=off", "GOSUMDB=off", "GOTOOLCHAIN=local")
}

// nativeBuilder compiles, once per unit, the test binary that replays models against the real code.
type nativeBuilder struct {
	workDir string
	bin     string
	err     error
	built   bool
	BuildS  float64
}

func (nb *nativeBuilder) build(spec *Spec, u *Unit, propDir string) error {
	if nb.built {
		return nb.err
	}
	nb.built = true
	t0 := time.Now()
	defer func() { nb.BuildS = time.Since(t0).Seconds() }()
	nb.workDir = filepath.Join(verifDir, ".work", spec.ID, u.Name)
	os.RemoveAll(nb.workDir)
	if err := os.MkdirAll(nb.workDir, 0o755); err != nil {
		nb.err = err
		return err
	}
	ov, err := overlayFor(u, propDir, true, nil)
	if err != nil {
		nb.err = err
		return err
	}
	pkgName := filepath.Base(u.Dir())
	if u.Pkg == "" {
		pkgName = "header"
	}
	test := fmt.Sprintf(`package %s

import (
	"testing"

	zzv "%s"
)

func TestZZReplay(t *testing.T) {
	zzv.RunReplay(t, map[string]func(){%q: %s})
}
`, pkgName, zzPkgPath, u.Harness, u.Harness)
	ov[filepath.Join(u.Dir(), "zz_replay_test.go")] = []byte(test)
	repl := map[string]string{}
	i := 0
	for virt, content := range ov {
		real := filepath.Join(nb.workDir, fmt.Sprintf("ov%d_%s", i, filepath.Base(virt)))
		i++
		if err := os.WriteFile(real, content, 0o644); err != nil {
			nb.err = err
			return err
		}
		repl[virt] = real
	}
	ovj, _ := json.Marshal(map[string]interface{}{"Replace": repl})
	ovPath := filepath.Join(nb.workDir, "overlay.json")
	os.WriteFile(ovPath, ovj, 0o644)
	nb.bin = filepath.Join(nb.workDir, "replay.test")
	ctx, cancel := context.WithTimeout(context.Background(), 10*time.Minute)
	defer cancel()
	cmd := exec.CommandContext(ctx, "go", "test", "-c", "-vet=off", "-o", nb.bin, "-overlay", ovPath, u.ImportPath())
	cmd.Dir = repoDir
	cmd.Env = goEnv()
	out, err := cmd.CombinedOutput()
	if err != nil {
		nb.err = fmt.Errorf("native build failed: %v\n%s", err, out)
	}
	return nb.err
}

var outcomeRe = regexp.MustCompile(`(?m)^ZZ-OUTCOME (.*)$`)

func (nb *nativeBuilder) run(replayPath string) Outcome {
	ctx, cancel := context.WithTimeout(context.Background(), 120*time.Second)
	defer cancel()
	cmd := exec.CommandContext(ctx, nb.bin, "-test.run", "^TestZZReplay$", "-test.v", "-test.timeout", "60s")
	cmd.Dir = nb.workDir
	cmd.Env = append(goEnv(), "ZZ_REPLAY="+replayPath)
	var buf bytes.Buffer
	cmd.Stdout = &buf
	cmd.Stderr = &buf
	cmd.Run()
	raw := buf.String()
	o := Outcome{Raw: raw}
	if m := outcomeRe.FindStringSubmatch(raw); m != nil {
		if err := json.Unmarshal([]byte(m[1]), &o); err == nil {
			o.Raw = raw
			return o
		}
	}
	switch {
	case strings.Contains(raw, "\npanic: ") || strings.HasPrefix(raw, "panic: ") || strings.Contains(raw, "fatal error: "):
		o.Status = "panic"
		for _, l := range strings.Split(raw, "\n") {
			if strings.HasPrefix(l, "panic: ") || strings.HasPrefix(l, "fatal error: ") {
				o.Panic = l
				break
			}
		}
		if strings.Contains(raw, "all goroutines in bubble are blocked") {
			o.Status = "deadlock"
		}
	case ctx.Err() != nil:
		o.Status = "timeout"
	default:
		o.Status = "diverged"
		o.Note = "no outcome line"
	}
	return o
}

func writeReplay(spec *Spec, u *Unit, tc *TierCfg, v *Violation, expect string, n int, sub string) (string, error) {
	dir := filepath.Join(verifDir, "replay", sub)
	os.MkdirAll(dir, 0o755)
	p := filepath.Join(dir, fmt.Sprintf("%s-%s-%d.json", spec.ID, u.Name, n))
	rf := ReplayFile{Property: spec.ID, Package: u.ImportPath(), Harness: u.Harness, Params: tc.Params, Values: v.Values, Clock0: v.Clock0,
		Gates: v.Gates, Expect: expect, Trace: v.Trace, Path: v.Path, Note: v.Msg}
	if rf.Params == nil {
		rf.Params = map[string]int{}
	}
	if rf.Values == nil {
		rf.Values = map[string][]uint64{}
	}
	b, _ := json.MarshalIndent(rf, "", " ")
	return p, os.WriteFile(p, b, 0o644)
}

// confirms reports whether the native outcome reproduces what the engine predicted.
func confirms(v *Violation, o Outcome) bool {
	switch v.Kind {
	case "assert":
		// the assertion failed natively: what happens to the run afterwards (the engine cuts the path there,
		// the native run goes on and may block or crash) is irrelevant
		for _, f := range o.Fails {
			if f == v.Msg {
				return true
			}
		}
		return false
	case "panic":
		return o.Status == "panic"
	case "deadlock":
		return o.Status == "deadlock"
	}
	return false
}

func sameTrace(a, b []string) bool {
	if len(a) != len(b) {
		return false
	}
	for i := range a {
		if a[i] != b[i] {
			return false
		}
	}
	return true
}
