package main

import (
	"fmt"
	"go/types"

	"golang.org/x/tools/go/ssa"
)

type Value interface{}

type IntV struct {
	T      *Term
	Signed bool
}
type BoolV struct{ T *Term }
type StrV struct {
	C   string
	Sym *Term // non-nil: opaque symbolic string (bv64 id): only equality is modelled
	// bounded symbolic string (zz.StrN): B[i] are its bytes (bv8), L its length (bv64, L <= len(B)).
	// Equality, len, constant-bound slicing and constant indexing are exact; everything else is unsupported.
	B []*Term
	L *Term
}

func (s StrV) isConc() bool { return s.Sym == nil && s.B == nil }
type TimeV struct {
	Zero *Term // Bool
	NS   *Term // bv64, signed nanoseconds since epoch
}
type Object struct {
	id int
	V  Value
}
type PtrV struct {
	Obj  *Object // nil pointer if nil
	Path []int
}
type StructV struct{ F []Value }
type ArrayV struct{ E []Value }
type SliceV struct {
	Arr           *Object // holds *ArrayV
	Off, Len, Cap int
}
type IfaceV struct {
	T types.Type // nil: nil interface
	V Value
}
type ClosureV struct {
	Fn  *ssa.Function
	Env []Value
}
type BuiltinV struct{ Name string }
type TupleV []Value
type OpaqueV struct{ What string }
type FloatV struct{ F float64 }

func copyValue(v Value) Value {
	switch x := v.(type) {
	case *StructV:
		n := &StructV{F: make([]Value, len(x.F))}
		for i, f := range x.F {
			n.F[i] = copyValue(f)
		}
		return n
	case *ArrayV:
		n := &ArrayV{E: make([]Value, len(x.E))}
		for i, f := range x.E {
			n.E[i] = copyValue(f)
		}
		return n
	}
	return v
}

func isTimeType(t types.Type) bool {
	n, ok := t.(*types.Named)
	return ok && n.Obj().Pkg() != nil && n.Obj().Pkg().Path() == "time" && n.Obj().Name() == "Time"
}

func intInfo(t types.Type) (w int, signed bool, ok bool) {
	b, isB := t.Underlying().(*types.Basic)
	if !isB {
		return 0, false, false
	}
	switch b.Kind() {
	case types.Int, types.Int64, types.UntypedInt:
		return 64, true, true
	case types.Int32, types.UntypedRune:
		return 32, true, true
	case types.Int16:
		return 16, true, true
	case types.Int8:
		return 8, true, true
	case types.Uint, types.Uint64, types.Uintptr:
		return 64, false, true
	case types.Uint32:
		return 32, false, true
	case types.Uint16:
		return 16, false, true
	case types.Uint8:
		return 8, false, true
	}
	return 0, false, false
}

func (e *Exec) zero(t types.Type) Value {
	if isTimeType(t) {
		return TimeV{NS: e.zeroTimeNS()}
	}
	switch u := t.Underlying().(type) {
	case *types.Basic:
		if w, s, ok := intInfo(t); ok {
			return IntV{T: e.P.BV(w, 0), Signed: s}
		}
		switch u.Kind() {
		case types.Bool, types.UntypedBool:
			return BoolV{T: e.P.Bool(false)}
		case types.String, types.UntypedString:
			return StrV{}
		case types.UnsafePointer:
			return PtrV{}
		case types.Float32, types.Float64, types.UntypedFloat:
			return FloatV{}
		case types.UntypedNil:
			return PtrV{}
		}
	case *types.Pointer:
		return PtrV{}
	case *types.Struct:
		s := &StructV{F: make([]Value, u.NumFields())}
		for i := 0; i < u.NumFields(); i++ {
			s.F[i] = e.zero(u.Field(i).Type())
		}
		return s
	case *types.Array:
		a := &ArrayV{E: make([]Value, u.Len())}
		for i := range a.E {
			a.E[i] = e.zero(u.Elem())
		}
		return a
	case *types.Slice:
		return SliceV{}
	case *types.Interface:
		return IfaceV{}
	case *types.Signature:
		return ClosureV{}
	case *types.Map:
		return MapV{}
	case *types.Chan:
		return ChanV{}
	case *types.Tuple:
		tv := make(TupleV, u.Len())
		for i := range tv {
			tv[i] = e.zero(u.At(i).Type())
		}
		return tv
	}
	panic(fmt.Sprintf("zero: unsupported type %s", t))
}
