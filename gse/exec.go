package main

import (
	"fmt"
	"go/constant"
	"go/token"
	"go/types"
	"strings"

	"golang.org/x/tools/go/ssa"
)

type pathAbort struct{ reason string }
type unsupported struct{ what string }
type goPanic struct {
	v   Value
	msg string
}

func (e *Exec) panicValue(gp *goPanic) Value {
	if gp.v != nil {
		if iv, ok := gp.v.(IfaceV); ok {
			return iv
		}
	}
	// runtime error: an opaque non-nil error value
	return e.mkErrorMsg(StrV{C: "runtime error: " + gp.msg}, nil)
}

type Violation struct {
	Msg    string
	Kind   string // "assert" | "panic" | "deadlock"
	Values map[string][]uint64
	Clock0 int64
	Gates  []string
	Trace  []string
	Path   []int
	Known  string
	Sched  []string
}

type nondet struct {
	label string
	t     *Term
}

// RunCfg is the per-unit, per-tier configuration of one exploration.
type RunCfg struct {
	Params   map[string]int
	Unwind   int    // max symbolic decisions per (frame, branch instruction)
	PBound   int    // pre-emption bound
	Sched    string // "runtoblock" | "gates" | "all"
	MaxSteps int
	ZZPath   string // import path of the helper package
	ConcreteClock bool
}

type Exec struct {
	P       *TermPool
	S       *Portfolio
	cfg     *RunCfg
	prog    *ssa.Program
	pkg     *ssa.Package
	globals map[*ssa.Global]*Object
	inited  bool

	pc        []*Term
	prefix    []int
	taken     []int
	alts      [][]int
	nondets   []nondet
	internal  []*Term
	nseq      int
	clock0    *Term
	clockAdv  *Term
	trace     []string
	obsTerms  map[int]*Term
	known     string
	gates     []string
	unwind    map[unwindKey]int
	symDecisions int
	lastForked   bool
	reachedNow   []string
	objID     int
	strIDs    map[string]uint64
	steps     int
	lastNow   *Term
	Viol      []Violation
	Asserts, AssertsUnsat, AssertsTrivial int
	Reached   map[string]bool
	FuncSteps map[string]int
	initing   map[*ssa.Package]bool
	timers    []*timerEnt
	timerObjs map[*Object]*timerEnt
	ctxSeq    int
	bgCtx     *CtxV
	timerFires int
	arrObjs    map[*ArrayV]*Object

	Sc           *Sched
	PreemptBound int
	locks        map[string]*lockState
}

const timeZeroNS = uint64(1) << 62 // sentinel: -(2^62) as two's complement below

func (e *Exec) zeroTimeNS() *Term { return e.P.BV(64, ^timeZeroNS+1) }

func (e *Exec) newObj(v Value) *Object { e.objID++; return &Object{id: e.objID, V: v} }

type unwindKey struct {
	fr  *frame
	ins ssa.Instruction
}

// fresh creates an engine-internal unknown (not part of the replay vector).
func (e *Exec) fresh(label string, w int) *Term {
	e.nseq++
	t := e.P.Var(fmt.Sprintf("i%d_%s", e.nseq, label), w)
	e.internal = append(e.internal, t)
	return t
}

// input creates a harness-level unknown, recorded under its label for replay.
func (e *Exec) input(label string, w int) *Term {
	e.nseq++
	t := e.P.Var(fmt.Sprintf("n%d_%s", e.nseq, sanitize(label)), w)
	e.nondets = append(e.nondets, nondet{label, t})
	return t
}

func sanitize(s string) string {
	b := []byte(s)
	for i, c := range b {
		if !(c >= 'a' && c <= 'z' || c >= 'A' && c <= 'Z' || c >= '0' && c <= '9' || c == '_') {
			b[i] = '_'
		}
	}
	return string(b)
}

func (e *Exec) wantTerms() []*Term {
	var ws []*Term
	for _, n := range e.nondets {
		ws = append(ws, n.t)
	}
	if e.clock0 != nil && !e.clock0.IsConst() {
		ws = append(ws, e.clock0)
	}
	for _, t := range e.obsTerms {
		ws = append(ws, t)
	}
	return ws
}

// mkViolation projects a model onto the harness inputs.
func (e *Exec) mkViolation(kind, msg string, model map[*Term]uint64) Violation {
	v := Violation{Msg: msg, Kind: kind, Values: map[string][]uint64{}, Path: append([]int{}, e.taken...), Known: e.known,
		Gates: append([]string{}, e.gates...)}
	for _, n := range e.nondets {
		v.Values[n.label] = append(v.Values[n.label], model[n.t])
	}
	if e.clock0 != nil {
		if e.clock0.IsConst() {
			v.Clock0 = int64(e.clock0.C)
		} else {
			v.Clock0 = int64(model[e.clock0])
		}
	}
	v.Trace = e.renderTrace(model)
	if e.Sc != nil {
		v.Sched = append([]string{}, e.Sc.trace...)
	}
	return v
}

func (e *Exec) renderTrace(model map[*Term]uint64) []string {
	out := make([]string, len(e.trace))
	for i, s := range e.trace {
		if t, ok := e.obsTerms[i]; ok {
			val := t.C
			if !t.IsConst() {
				val = model[t]
			}
			out[i] = fmt.Sprintf("%s%d", s, val)
		} else {
			out[i] = s
		}
	}
	return out
}

func (e *Exec) assume(c *Term) {
	if c.IsTrue() {
		return
	}
	if c.IsFalse() {
		panic(pathAbort{"assume false"})
	}
	e.pc = append(e.pc, c)
}

// decide resolves a symbolic boolean at a control point.
func (e *Exec) decide(c *Term) bool {
	if c.IsConst() {
		return c.C == 1
	}
	pos := len(e.taken)
	e.symDecisions++
	if pos < len(e.prefix) {
		b := e.prefix[pos]&1 == 1
		e.lastForked = e.prefix[pos] < 2
		e.taken = append(e.taken, e.prefix[pos])
		if e.prefix[pos] >= 2 {
			return b
		}
		if b {
			e.pc = append(e.pc, c)
		} else {
			e.pc = append(e.pc, e.P.Not(c))
		}
		return b
	}
	r, _, err := e.S.Check(append(append([]*Term{}, e.pc...), c), nil)
	if err != nil {
		panic(unsupported{err.Error()})
	}
	if r == "unknown" {
		panic(unsupported{"solver unknown at branch"})
	}
	if r == "unsat" {
		e.taken = append(e.taken, 2) // forced false: implied by the path condition
		return false
	}
	r2, _, err := e.S.Check(append(append([]*Term{}, e.pc...), e.P.Not(c)), nil)
	if err != nil {
		panic(unsupported{err.Error()})
	}
	if r2 == "unknown" {
		panic(unsupported{"solver unknown at branch"})
	}
	if r2 == "sat" {
		alt := append(append([]int{}, e.taken...), 0)
		e.alts = append(e.alts, alt)
		e.lastForked = true
		e.taken = append(e.taken, 1)
	} else {
		e.taken = append(e.taken, 3) // forced true: implied by the path condition
		return true
	}
	e.pc = append(e.pc, c)
	return true
}

func (e *Exec) assert(c *Term, msg string) {
	if c.IsTrue() {
		e.AssertsTrivial++
		return
	}
	e.Asserts++
	r, model, err := e.S.Check(append(append([]*Term{}, e.pc...), e.P.Not(c)), e.wantTerms())
	if err != nil {
		panic(unsupported{err.Error()})
	}
	switch r {
	case "unsat":
		e.AssertsUnsat++
	case "sat":
		e.Viol = append(e.Viol, e.mkViolation("assert", msg, model))
	default:
		panic(unsupported{"solver unknown at assertion " + msg})
	}
	e.assume(c)
}

func (e *Exec) strID(s string) *Term {
	id, ok := e.strIDs[s]
	if !ok {
		id = uint64(len(e.strIDs) + 1)
		e.strIDs[s] = id
	}
	return e.P.BV(64, id)
}

func (e *Exec) strTerm(s StrV) *Term {
	if s.B != nil {
		panic(unsupported{"bounded symbolic string used as an opaque string"})
	}
	if s.Sym != nil {
		return s.Sym
	}
	return e.strID(s.C)
}

// strBytes gives the (bytes, length) view of a concrete or bounded symbolic string.
func (e *Exec) strBytes(s StrV) ([]*Term, *Term) {
	if s.B != nil {
		return s.B, s.L
	}
	if s.Sym != nil {
		panic(unsupported{"opaque string compared with a bounded symbolic string"})
	}
	b := make([]*Term, len(s.C))
	for i := range b {
		b[i] = e.P.BV(8, uint64(s.C[i]))
	}
	return b, e.P.BV(64, uint64(len(s.C)))
}

// strEq: equality of two strings at least one of which is a bounded symbolic string.
func (e *Exec) strEq(x, y StrV) *Term {
	xb, xl := e.strBytes(x)
	yb, yl := e.strBytes(y)
	r := e.P.Cmp("=", xl, yl)
	n := min(len(xb), len(yb)) // both lengths are bounded by their byte vectors, so equal lengths are <= n
	for i := 0; i < n; i++ {
		in := e.P.Cmp("bvult", e.P.BV(64, uint64(i)), xl)
		r = e.P.And(r, e.P.Or(e.P.Not(in), e.P.Cmp("=", xb[i], yb[i])))
	}
	return r
}

// ---- memory ----

func child(v Value, i int) Value {
	switch x := v.(type) {
	case *StructV:
		return x.F[i]
	case *ArrayV:
		return x.E[i]
	}
	panic(unsupported{fmt.Sprintf("child of %T", v)})
}

func setChild(v Value, i int, nv Value) {
	switch x := v.(type) {
	case *StructV:
		x.F[i] = nv
	case *ArrayV:
		x.E[i] = nv
	default:
		panic(unsupported{fmt.Sprintf("setChild of %T", v)})
	}
}

func (e *Exec) load(p PtrV) Value {
	if p.Obj == nil {
		panic(goPanic{msg: "nil pointer dereference"})
	}
	v := p.Obj.V
	for _, i := range p.Path {
		v = child(v, i)
	}
	return copyValue(v)
}

func (e *Exec) store(p PtrV, nv Value) {
	if p.Obj == nil {
		panic(goPanic{msg: "nil pointer dereference"})
	}
	nv = copyValue(nv)
	if len(p.Path) == 0 {
		p.Obj.V = nv
		return
	}
	v := p.Obj.V
	for _, i := range p.Path[:len(p.Path)-1] {
		v = child(v, i)
	}
	setChild(v, p.Path[len(p.Path)-1], nv)
}

// ---- constants ----

func (e *Exec) constValue(c *ssa.Const) Value {
	t := c.Type()
	if c.Value == nil {
		return e.zero(t)
	}
	if isTimeType(t) {
		return e.zero(t)
	}
	if w, s, ok := intInfo(t); ok {
		if s {
			i, _ := constant.Int64Val(constant.ToInt(c.Value))
			return IntV{T: e.P.BV(w, uint64(i)), Signed: true}
		}
		u, _ := constant.Uint64Val(constant.ToInt(c.Value))
		return IntV{T: e.P.BV(w, u), Signed: false}
	}
	switch b := t.Underlying().(type) {
	case *types.Basic:
		switch b.Kind() {
		case types.Bool, types.UntypedBool:
			return BoolV{T: e.P.Bool(constant.BoolVal(c.Value))}
		case types.String, types.UntypedString:
			return StrV{C: constant.StringVal(c.Value)}
		case types.Float32, types.Float64, types.UntypedFloat:
			f, _ := constant.Float64Val(constant.ToFloat(c.Value))
			return FloatV{F: f}
		}
	}
	panic(unsupported{"const of type " + t.String()})
}

// ---- frames ----

type frame struct {
	fn        *ssa.Function
	env       map[ssa.Value]Value
	defers    []func()
	panicking *goPanic
	result    Value
}

func (e *Exec) get(fr *frame, v ssa.Value) Value {
	switch x := v.(type) {
	case *ssa.Const:
		return e.constValue(x)
	case *ssa.Function:
		return x
	case *ssa.Builtin:
		return BuiltinV{x.Name()}
	case *ssa.Global:
		return PtrV{Obj: e.global(x)}
	}
	if r, ok := fr.env[v]; ok {
		return r
	}
	panic(unsupported{fmt.Sprintf("no value for %s (%T) in %s", v.Name(), v, fr.fn)})
}

func (e *Exec) global(g *ssa.Global) *Object {
	if o, ok := e.globals[g]; ok {
		return o
	}
	if g.Pkg != nil && !e.initing[g.Pkg] {
		// lazy, best-effort interpretation of the package initialiser on first touch of one of its globals
		e.initing[g.Pkg] = true
		if !noInit[g.Pkg.Pkg.Path()] {
			e.initPkg(g.Pkg)
		}
		if o, ok := e.globals[g]; ok {
			return o
		}
	}
	et := g.Type().(*types.Pointer).Elem()
	var o *Object
	o = e.newObj(e.safeZero(et))
	e.globals[g] = o
	return o
}

func (e *Exec) safeZero(t types.Type) (v Value) {
	defer func() {
		if r := recover(); r != nil {
			v = OpaqueV{"global " + t.String()}
		}
	}()
	return e.zero(t)
}

// packages whose initialisers are never interpreted (their globals start as zero values / opaque)
var noInit = map[string]bool{"unicode": true, "os": true, "syscall": true, "runtime": true, "reflect": true, "time": true, "sync": true,
	"go.opentelemetry.io/otel": true, "github.com/ipfs/go-log/v2": true, "go.uber.org/zap": true}

// initPkg interprets the package initialiser best-effort: instructions that fail are skipped.
func (e *Exec) initPkg(p *ssa.Package) {
	init := p.Func("init")
	if init == nil || init.Blocks == nil {
		return
	}
	fr := &frame{fn: init, env: map[ssa.Value]Value{}}
	for _, b := range init.Blocks {
		for _, ins := range b.Instrs {
			func() {
				defer func() {
					if r := recover(); r != nil {
						switch r.(type) {
						case unsupported, goPanic, pathAbort:
						default:
							if _, ok := r.(threadKill); ok {
								panic(r)
							}
						}
					}
				}()
				switch ins.(type) {
				case *ssa.If, *ssa.Jump, *ssa.Return:
					return
				}
				if c, ok := ins.(*ssa.Call); ok {
					if f := c.Call.StaticCallee(); f != nil && f.Name() == "init" {
						return
					}
				}
				e.exec(fr, ins, nil)
			}()
		}
	}
}

func (e *Exec) call(fnv Value, args []Value, site string) Value {
	switch f := fnv.(type) {
	case *ssa.Function:
		return e.callFn(f, nil, args)
	case ClosureV:
		if f.Fn == nil {
			panic(goPanic{msg: "call of nil func"})
		}
		return e.callFn(f.Fn, f.Env, args)
	case BuiltinV:
		return e.builtin(f.Name, args)
	case NativeFn:
		return f(args)
	}
	panic(unsupported{fmt.Sprintf("call of %T at %s", fnv, site)})
}

func (e *Exec) callFn(fn *ssa.Function, env []Value, args []Value) (res Value) {
	if r, ok := e.intrinsic(fn, args); ok {
		return r
	}
	if fn.Blocks == nil {
		panic(unsupported{"external function without body: " + fn.String()})
	}
	th := e.curThread()
	th.depth++
	if th.depth > 400 {
		panic(unsupported{"call depth in " + fn.String()})
	}
	defer func() { th.depth-- }()
	fr := &frame{fn: fn, env: map[ssa.Value]Value{}}
	for i, p := range fn.Params {
		fr.env[p] = args[i]
	}
	for i, fv := range fn.FreeVars {
		fr.env[fv] = env[i]
	}
	name := fn.String()
	block := fn.Blocks[0]
	var prev *ssa.BasicBlock
	func() {
		defer func() {
			if r := recover(); r != nil {
				gp, ok := r.(goPanic)
				if !ok {
					panic(r)
				}
				fr.panicking = &gp
				e.runDefers(fr)
				if fr.panicking != nil {
					panic(*fr.panicking)
				}
				// recovered: run the recover block if any
				if fn.Recover != nil {
					block, prev = fn.Recover, nil
					e.runBlocks(fr, block, prev, name)
				}
			}
		}()
		e.runBlocks(fr, block, prev, name)
	}()
	return fr.result
}

func (e *Exec) runBlocks(fr *frame, block, prev *ssa.BasicBlock, name string) {
	for block != nil {
		var next *ssa.BasicBlock
		for _, ins := range block.Instrs {
			e.steps++
			e.FuncSteps[name]++
			if e.steps > e.cfg.MaxSteps {
				panic(unsupported{"step budget exceeded in " + name})
			}
			nb, done := e.exec(fr, ins, prev)
			if done {
				return
			}
			if nb != nil {
				next = nb
				break
			}
		}
		prev, block = block, next
	}
}

func (e *Exec) runDefers(fr *frame) {
	th := e.curThread()
	for len(fr.defers) > 0 {
		d := fr.defers[len(fr.defers)-1]
		fr.defers = fr.defers[:len(fr.defers)-1]
		func() {
			th.deferStack = append(th.deferStack, fr)
			defer func() { th.deferStack = th.deferStack[:len(th.deferStack)-1] }()
			defer func() {
				if r := recover(); r != nil {
					gp, ok := r.(goPanic)
					if !ok {
						panic(r)
					}
					fr.panicking = &gp
				}
			}()
			d()
		}()
	}
}

func (e *Exec) callCommon(fr *frame, c *ssa.CallCommon) (Value, []Value) {
	var args []Value
	var fnv Value
	if c.IsInvoke() {
		recv := e.get(fr, c.Value).(IfaceV)
		if cv, ok := recv.V.(*CtxV); ok {
			name := c.Method.Name()
			var margs []Value
			for _, a := range c.Args {
				margs = append(margs, e.get(fr, a))
			}
			return NativeFn(func([]Value) Value { return e.ctxMethod(cv, name, margs) }), nil
		}
		if _, ok := recv.V.(OpaqueV); ok {
			var margs []Value
			for _, a := range c.Args {
				margs = append(margs, e.get(fr, a))
			}
			sig := c.Method.Type().(*types.Signature)
			return NativeFn(func([]Value) Value { return e.opaqueResults(sig, margs) }), nil
		}
		if recv.T == nil {
			panic(goPanic{msg: "invoke on nil interface " + c.Method.Name()})
		}
		m := e.findMethod(recv.T, c.Method.Pkg(), c.Method.Name())
		if m == nil {
			panic(unsupported{"method not found " + c.Method.Name() + " on " + recv.T.String()})
		}
		fnv = m
		args = append(args, recv.V)
	} else {
		fnv = e.get(fr, c.Value)
	}
	for _, a := range c.Args {
		args = append(args, e.get(fr, a))
	}
	return fnv, args
}

// exec executes one instruction; returns next block (for control transfer) or done for return.
func (e *Exec) exec(fr *frame, ins ssa.Instruction, prev *ssa.BasicBlock) (*ssa.BasicBlock, bool) {
	switch x := ins.(type) {
	case *ssa.DebugRef:
	case *ssa.Alloc:
		fr.env[x] = PtrV{Obj: e.newObj(e.zero(x.Type().(*types.Pointer).Elem()))}
	case *ssa.UnOp:
		fr.env[x] = e.unop(fr, x)
	case *ssa.BinOp:
		fr.env[x] = e.binop(x.Op, e.get(fr, x.X), e.get(fr, x.Y), x.X.Type())
	case *ssa.Call:
		fnv, args := e.callCommon(fr, &x.Call)
		fr.env[x] = e.call(fnv, args, x.String())
	case *ssa.Defer:
		fnv, args := e.callCommon(fr, &x.Call)
		fr.defers = append(fr.defers, func() { e.call(fnv, args, "defer") })
	case *ssa.RunDefers:
		e.runDefers(fr)
		if fr.panicking != nil {
			panic(*fr.panicking)
		}
	case *ssa.ChangeInterface:
		fr.env[x] = e.get(fr, x.X)
	case *ssa.ChangeType:
		fr.env[x] = e.get(fr, x.X)
	case *ssa.Convert:
		fr.env[x] = e.convert(e.get(fr, x.X), x.X.Type(), x.Type())
	case *ssa.Extract:
		fr.env[x] = e.get(fr, x.Tuple).(TupleV)[x.Index]
	case *ssa.Field:
		fr.env[x] = copyValue(e.get(fr, x.X).(*StructV).F[x.Field])
	case *ssa.FieldAddr:
		p := e.get(fr, x.X).(PtrV)
		if p.Obj == nil {
			panic(goPanic{msg: "nil pointer dereference (field " + x.String() + ")"})
		}
		fr.env[x] = PtrV{Obj: p.Obj, Path: append(append([]int{}, p.Path...), x.Field)}
	case *ssa.IndexAddr:
		fr.env[x] = e.indexAddr(e.get(fr, x.X), e.get(fr, x.Index))
	case *ssa.Index:
		idx := e.concInt(e.get(fr, x.Index))
		switch a := e.get(fr, x.X).(type) {
		case *ArrayV:
			if idx < 0 || idx >= len(a.E) {
				panic(goPanic{msg: fmt.Sprintf("index out of range [%d] with length %d", idx, len(a.E))})
			}
			fr.env[x] = copyValue(a.E[idx])
		case StrV:
			if a.B != nil {
				if idx < 0 || idx >= len(a.B) || !e.decide(e.P.Cmp("bvult", e.P.BV(64, uint64(idx)), a.L)) {
					panic(goPanic{msg: fmt.Sprintf("index out of range [%d]", idx)})
				}
				fr.env[x] = IntV{T: a.B[idx]}
				break
			}
			if a.Sym != nil {
				panic(unsupported{"index of a symbolic string"})
			}
			if idx < 0 || idx >= len(a.C) {
				panic(goPanic{msg: fmt.Sprintf("index out of range [%d] with length %d", idx, len(a.C))})
			}
			fr.env[x] = IntV{T: e.P.BV(8, uint64(a.C[idx]))}
		default:
			panic(unsupported{fmt.Sprintf("Index on %T", a)})
		}
	case *ssa.MakeClosure:
		var env []Value
		for _, b := range x.Bindings {
			env = append(env, e.get(fr, b))
		}
		fr.env[x] = ClosureV{Fn: x.Fn.(*ssa.Function), Env: env}
	case *ssa.MakeInterface:
		fr.env[x] = IfaceV{T: x.X.Type(), V: e.get(fr, x.X)}
	case *ssa.MakeSlice:
		n := e.concInt(e.get(fr, x.Len))
		c := e.concInt(e.get(fr, x.Cap))
		if n < 0 || c < n || c > 1<<20 {
			panic(goPanic{msg: "makeslice: len/cap out of range"})
		}
		arr := &ArrayV{E: make([]Value, c)}
		et := x.Type().Underlying().(*types.Slice).Elem()
		for i := range arr.E {
			arr.E[i] = e.zero(et)
		}
		fr.env[x] = SliceV{Arr: e.newObj(arr), Len: n, Cap: c}
	case *ssa.Slice:
		fr.env[x] = e.slice(fr, x)
	case *ssa.Store:
		e.store(e.get(fr, x.Addr).(PtrV), e.get(fr, x.Val))
	case *ssa.TypeAssert:
		fr.env[x] = e.typeAssert(x, e.get(fr, x.X).(IfaceV))
	case *ssa.Phi:
		for i, p := range x.Block().Preds {
			if p == prev {
				fr.env[x] = e.get(fr, x.Edges[i])
				break
			}
		}
	case *ssa.If:
		c := e.get(fr, x.Cond).(BoolV)
		e.lastForked = false
		b := e.decide(c.T)
		if e.lastForked && e.cfg.Unwind > 0 {
			k := unwindKey{fr, ins}
			e.unwind[k]++
			if e.unwind[k] > e.cfg.Unwind {
				panic(unsupported{fmt.Sprintf("unwinding assertion: more than %d two-sided symbolic decisions at block %d of %s", e.cfg.Unwind, x.Block().Index, fr.fn)})
			}
		}
		if b {
			return x.Block().Succs[0], false
		}
		return x.Block().Succs[1], false
	case *ssa.Jump:
		return x.Block().Succs[0], false
	case *ssa.Return:
		switch len(x.Results) {
		case 0:
		case 1:
			fr.result = e.get(fr, x.Results[0])
		default:
			tv := make(TupleV, len(x.Results))
			for i, r := range x.Results {
				tv[i] = e.get(fr, r)
			}
			fr.result = tv
		}
		return nil, true
	case *ssa.Panic:
		panic(goPanic{v: e.get(fr, x.X), msg: "explicit panic"})
	case *ssa.Go:
		fnv, args := e.callCommon(fr, &x.Call)
		e.spawn(fnv, args)
	case *ssa.MakeChan:
		n := e.concInt(e.get(fr, x.Size))
		fr.env[x] = ChanV{C: &ChanObj{cap: n, elem: x.Type().Underlying().(*types.Chan).Elem()}}
	case *ssa.Send:
		e.chanSend(e.get(fr, x.Chan).(ChanV), e.get(fr, x.X))
	case *ssa.Select:
		fr.env[x] = e.doSelect(fr, x)
	case *ssa.MakeMap:
		mt := x.Type().Underlying().(*types.Map)
		fr.env[x] = MapV{M: &MapObj{vt: mt.Elem()}}
	case *ssa.MapUpdate:
		m := e.get(fr, x.Map).(MapV)
		if m.M == nil {
			panic(goPanic{msg: "assignment to entry in nil map"})
		}
		k, v := e.get(fr, x.Key), copyValue(e.get(fr, x.Value))
		if i := e.mapFind(m.M, k); i >= 0 {
			m.M.vals[i] = v
		} else {
			m.M.keys = append(m.M.keys, k)
			m.M.vals = append(m.M.vals, v)
		}
	case *ssa.Lookup:
		switch m := e.get(fr, x.X).(type) {
		case MapV:
			var v Value
			ok := false
			if m.M != nil {
				if i := e.mapFind(m.M, e.get(fr, x.Index)); i >= 0 {
					v, ok = copyValue(m.M.vals[i]), true
				}
			}
			if !ok {
				v = e.zero(x.X.Type().Underlying().(*types.Map).Elem())
			}
			if x.CommaOk {
				fr.env[x] = TupleV{v, BoolV{e.P.Bool(ok)}}
			} else {
				fr.env[x] = v
			}
		case StrV:
			idx := e.concInt(e.get(fr, x.Index))
			if m.B != nil {
				if idx < 0 || idx >= len(m.B) || !e.decide(e.P.Cmp("bvult", e.P.BV(64, uint64(idx)), m.L)) {
					panic(goPanic{msg: fmt.Sprintf("index out of range [%d]", idx)})
				}
				fr.env[x] = IntV{T: m.B[idx]}
				break
			}
			if !m.isConc() {
				panic(unsupported{"index of a symbolic string"})
			}
			if idx < 0 || idx >= len(m.C) {
				panic(goPanic{msg: fmt.Sprintf("index out of range [%d] with length %d", idx, len(m.C))})
			}
			fr.env[x] = IntV{T: e.P.BV(8, uint64(m.C[idx]))}
		default:
			panic(unsupported{"Lookup"})
		}
	case *ssa.Range:
		m, ok := e.get(fr, x.X).(MapV)
		if !ok {
			panic(unsupported{"range over non-map"})
		}
		it := &mapIter{m: m.M}
		if m.M != nil {
			it.keys = append(it.keys, m.M.keys...)
		}
		fr.env[x] = it
	case *ssa.Next:
		it := e.get(fr, x.Iter).(*mapIter)
		mt := x.Iter.(*ssa.Range).X.Type().Underlying().(*types.Map)
		res := TupleV{BoolV{e.P.Bool(false)}, e.zero(mt.Key()), e.zero(mt.Elem())}
		for it.pos < len(it.keys) {
			k := it.keys[it.pos]
			it.pos++
			if i := e.mapFind(it.m, k); i >= 0 {
				res = TupleV{BoolV{e.P.Bool(true)}, k, copyValue(it.m.vals[i])}
				break
			}
		}
		fr.env[x] = res
	default:
		panic(unsupported{fmt.Sprintf("instruction %T in %s", ins, fr.fn)})
	}
	return nil, false
}

func (e *Exec) concInt(v Value) int {
	iv := v.(IntV)
	c := iv.T.C
	if !iv.T.IsConst() {
		c = e.concretize(iv.T)
	}
	if iv.Signed {
		return int(sext(c, iv.T.W))
	}
	return int(c & mask(iv.T.W))
}

// concretize enumerates the feasible values of t, forking per value (bounded).
func (e *Exec) concretize(t *Term) uint64 {
	for iter := 0; iter < 300; iter++ {
		pos := len(e.taken)
		if pos+1 < len(e.prefix) {
			flag, v := e.prefix[pos], uint64(e.prefix[pos+1])
			e.taken = append(e.taken, flag, int(v))
			c := e.P.Cmp("=", t, e.P.BV(t.W, v))
			if flag == 1 {
				e.pc = append(e.pc, c)
				return v
			}
			e.pc = append(e.pc, e.P.Not(c))
			continue
		}
		res, model, err := e.S.Check(e.pc, []*Term{t})
		if err != nil || res != "sat" {
			panic(pathAbort{"concretize: infeasible"})
		}
		v := model[t]
		c := e.P.Cmp("=", t, e.P.BV(t.W, v))
		r2, _, _ := e.S.Check(append(append([]*Term{}, e.pc...), e.P.Not(c)), nil)
		if r2 == "sat" {
			e.alts = append(e.alts, append(append([]int{}, e.taken...), 0, int(v)))
		}
		e.taken = append(e.taken, 1, int(v))
		e.pc = append(e.pc, c)
		return v
	}
	panic(unsupported{"concretize: more than 300 values"})
}

// concValue makes an integer value concrete where a map key / string conversion needs it.
func (e *Exec) concValue(v Value) Value {
	if iv, ok := v.(IntV); ok && !iv.T.IsConst() {
		return IntV{T: e.P.BV(iv.T.W, e.concretize(iv.T)), Signed: iv.Signed}
	}
	return v
}

func (e *Exec) indexAddr(x, idx Value) Value {
	i := e.concInt(idx)
	switch a := x.(type) {
	case SliceV:
		if i < 0 || i >= a.Len {
			panic(goPanic{msg: fmt.Sprintf("index out of range [%d] with length %d", i, a.Len)})
		}
		return PtrV{Obj: a.Arr, Path: []int{a.Off + i}}
	case PtrV:
		if a.Obj == nil {
			panic(goPanic{msg: "nil pointer dereference (index)"})
		}
		return PtrV{Obj: a.Obj, Path: append(append([]int{}, a.Path...), i)}
	}
	panic(unsupported{fmt.Sprintf("IndexAddr on %T", x)})
}

func (e *Exec) slice(fr *frame, x *ssa.Slice) Value {
	opt := func(v ssa.Value, def int) int {
		if v == nil {
			return def
		}
		return e.concInt(e.get(fr, v))
	}
	switch a := e.get(fr, x.X).(type) {
	case SliceV:
		lo := opt(x.Low, 0)
		hi := opt(x.High, a.Len)
		mx := opt(x.Max, a.Cap)
		if lo < 0 || hi < lo || hi > a.Cap || mx > a.Cap || mx < hi {
			panic(goPanic{msg: "slice bounds out of range"})
		}
		return SliceV{Arr: a.Arr, Off: a.Off + lo, Len: hi - lo, Cap: mx - lo}
	case PtrV: // pointer to array
		if a.Obj == nil {
			panic(goPanic{msg: "nil pointer dereference (slice)"})
		}
		if len(a.Path) != 0 {
			// an array nested in a struct / array: wrap the very same ArrayV in an object of its own
			v := a.Obj.V
			for _, i := range a.Path {
				v = child(v, i)
			}
			av, ok := v.(*ArrayV)
			if !ok {
				panic(unsupported{"slice of a nested non-array"})
			}
			if e.arrObjs == nil {
				e.arrObjs = map[*ArrayV]*Object{}
			}
			o, ok := e.arrObjs[av]
			if !ok {
				o = e.newObj(av)
				e.arrObjs[av] = o
			}
			a = PtrV{Obj: o}
		}
		n := len(a.Obj.V.(*ArrayV).E)
		lo := opt(x.Low, 0)
		hi := opt(x.High, n)
		mx := opt(x.Max, n)
		if lo < 0 || hi < lo || hi > n || mx > n {
			panic(goPanic{msg: "slice bounds out of range"})
		}
		return SliceV{Arr: a.Obj, Off: lo, Len: hi - lo, Cap: mx - lo}
	case StrV:
		if a.B != nil {
			lo := opt(x.Low, 0)
			if x.High == nil {
				// s[lo:]: needs lo <= len
				if lo < 0 || lo > len(a.B) || !e.decide(e.P.Cmp("bvule", e.P.BV(64, uint64(lo)), a.L)) {
					panic(goPanic{msg: "slice bounds out of range"})
				}
				return StrV{B: a.B[lo:], L: e.P.BinBV("bvsub", a.L, e.P.BV(64, uint64(lo)))}
			}
			hi := opt(x.High, 0)
			if lo < 0 || hi < lo || hi > len(a.B) || !e.decide(e.P.Cmp("bvule", e.P.BV(64, uint64(hi)), a.L)) {
				panic(goPanic{msg: "slice bounds out of range"})
			}
			return StrV{B: a.B[lo:hi], L: e.P.BV(64, uint64(hi-lo))}
		}
		if a.Sym != nil {
			panic(unsupported{"slice of an opaque symbolic string"})
		}
		lo := opt(x.Low, 0)
		hi := opt(x.High, len(a.C))
		if lo < 0 || hi < lo || hi > len(a.C) {
			panic(goPanic{msg: "slice bounds out of range"})
		}
		return StrV{C: a.C[lo:hi]}
	}
	panic(unsupported{"Slice operand"})
}

func (e *Exec) unop(fr *frame, x *ssa.UnOp) Value {
	v := e.get(fr, x.X)
	switch x.Op {
	case token.MUL:
		return e.load(v.(PtrV))
	case token.ARROW:
		rv, ok := e.chanRecv(v.(ChanV))
		if x.CommaOk {
			return TupleV{rv, BoolV{e.P.Bool(ok)}}
		}
		return rv
	case token.NOT:
		return BoolV{T: e.P.Not(v.(BoolV).T)}
	case token.SUB:
		iv := v.(IntV)
		return IntV{T: e.P.BinBV("bvsub", e.P.BV(iv.T.W, 0), iv.T), Signed: iv.Signed}
	case token.XOR:
		iv := v.(IntV)
		return IntV{T: e.P.BinBV("bvxor", iv.T, e.P.BV(iv.T.W, ^uint64(0))), Signed: iv.Signed}
	}
	panic(unsupported{"unop " + x.Op.String()})
}

func (e *Exec) binop(op token.Token, a, b Value, t types.Type) Value {
	switch x := a.(type) {
	case IntV:
		y := b.(IntV)
		yt := y.T
		if op == token.SHL || op == token.SHR {
			yt = e.P.Extend(yt, x.T.W, false)
			if y.T.W > x.T.W { // huge count: saturate
				big := e.P.Cmp("bvuge", y.T, e.P.BV(y.T.W, uint64(x.T.W)))
				yt = e.P.Ite(big, e.P.BV(x.T.W, uint64(x.T.W)), yt)
			}
		}
		s := x.Signed
		pick := func(sop, uop string) string {
			if s {
				return sop
			}
			return uop
		}
		switch op {
		case token.ADD:
			return IntV{e.P.BinBV("bvadd", x.T, yt), s}
		case token.SUB:
			return IntV{e.P.BinBV("bvsub", x.T, yt), s}
		case token.MUL:
			return IntV{e.P.BinBV("bvmul", x.T, yt), s}
		case token.QUO, token.REM:
			if e.decide(e.P.Cmp("=", yt, e.P.BV(yt.W, 0))) {
				panic(goPanic{msg: "integer divide by zero"})
			}
			if op == token.QUO {
				return IntV{e.P.BinBV(pick("bvsdiv", "bvudiv"), x.T, yt), s}
			}
			return IntV{e.P.BinBV(pick("bvsrem", "bvurem"), x.T, yt), s}
		case token.AND:
			return IntV{e.P.BinBV("bvand", x.T, yt), s}
		case token.OR:
			return IntV{e.P.BinBV("bvor", x.T, yt), s}
		case token.XOR:
			return IntV{e.P.BinBV("bvxor", x.T, yt), s}
		case token.AND_NOT:
			return IntV{e.P.BinBV("bvand", x.T, e.P.BinBV("bvxor", yt, e.P.BV(yt.W, ^uint64(0)))), s}
		case token.SHL:
			return IntV{e.P.BinBV("bvshl", x.T, yt), s}
		case token.SHR:
			return IntV{e.P.BinBV(pick("bvashr", "bvlshr"), x.T, yt), s}
		case token.EQL:
			return BoolV{e.P.Cmp("=", x.T, yt)}
		case token.NEQ:
			return BoolV{e.P.Not(e.P.Cmp("=", x.T, yt))}
		case token.LSS:
			return BoolV{e.P.Cmp(pick("bvslt", "bvult"), x.T, yt)}
		case token.LEQ:
			return BoolV{e.P.Cmp(pick("bvsle", "bvule"), x.T, yt)}
		case token.GTR:
			return BoolV{e.P.Cmp(pick("bvsgt", "bvugt"), x.T, yt)}
		case token.GEQ:
			return BoolV{e.P.Cmp(pick("bvsge", "bvuge"), x.T, yt)}
		}
	case FloatV:
		y, ok := b.(FloatV)
		if !ok {
			return OpaqueV{"float"}
		}
		switch op {
		case token.ADD:
			return FloatV{x.F + y.F}
		case token.SUB:
			return FloatV{x.F - y.F}
		case token.MUL:
			return FloatV{x.F * y.F}
		case token.QUO:
			return FloatV{x.F / y.F}
		case token.LSS:
			return BoolV{e.P.Bool(x.F < y.F)}
		case token.LEQ:
			return BoolV{e.P.Bool(x.F <= y.F)}
		case token.GTR:
			return BoolV{e.P.Bool(x.F > y.F)}
		case token.GEQ:
			return BoolV{e.P.Bool(x.F >= y.F)}
		case token.EQL:
			return BoolV{e.P.Bool(x.F == y.F)}
		case token.NEQ:
			return BoolV{e.P.Bool(x.F != y.F)}
		}
	case OpaqueV:
		switch op {
		case token.LSS, token.LEQ, token.GTR, token.GEQ, token.EQL, token.NEQ:
			return BoolV{e.fresh("opaquecmp", 0)}
		}
		return x
	case BoolV:
		y := b.(BoolV)
		switch op {
		case token.EQL:
			return BoolV{e.P.Eq(x.T, y.T)}
		case token.NEQ:
			return BoolV{e.P.Not(e.P.Eq(x.T, y.T))}
		}
	case StrV:
		y := b.(StrV)
		if x.B != nil || y.B != nil {
			switch op {
			case token.EQL:
				return BoolV{e.strEq(x, y)}
			case token.NEQ:
				return BoolV{e.P.Not(e.strEq(x, y))}
			case token.ADD:
				return StrV{Sym: e.fresh("strcat", 64)}
			}
			panic(unsupported{"operator on a bounded symbolic string"})
		}
		if x.isConc() && y.isConc() {
			switch op {
			case token.ADD:
				return StrV{C: x.C + y.C}
			case token.EQL:
				return BoolV{e.P.Bool(x.C == y.C)}
			case token.NEQ:
				return BoolV{e.P.Bool(x.C != y.C)}
			case token.LSS:
				return BoolV{e.P.Bool(x.C < y.C)}
			}
		}
		switch op {
		case token.EQL:
			return BoolV{e.P.Cmp("=", e.strTerm(x), e.strTerm(y))}
		case token.NEQ:
			return BoolV{e.P.Not(e.P.Cmp("=", e.strTerm(x), e.strTerm(y)))}
		case token.ADD:
			return StrV{Sym: e.fresh("strcat", 64)}
		}
	case PtrV:
		y := b.(PtrV)
		eq := x.Obj == y.Obj && fmt.Sprint(x.Path) == fmt.Sprint(y.Path)
		switch op {
		case token.EQL:
			return BoolV{e.P.Bool(eq)}
		case token.NEQ:
			return BoolV{e.P.Bool(!eq)}
		}
	case IfaceV:
		y := b.(IfaceV)
		eq := e.ifaceEq(x, y)
		switch op {
		case token.EQL:
			return BoolV{eq}
		case token.NEQ:
			return BoolV{e.P.Not(eq)}
		}
	case SliceV: // comparison with nil only
		eq := x.Arr == nil
		if op == token.NEQ {
			eq = !eq
		}
		return BoolV{e.P.Bool(eq)}
	case ChanV:
		y := b.(ChanV)
		eq := x.C == y.C
		if op == token.NEQ {
			eq = !eq
		}
		return BoolV{e.P.Bool(eq)}
	case MapV:
		eq := x.M == nil
		if op == token.NEQ {
			eq = !eq
		}
		return BoolV{e.P.Bool(eq)}
	case ClosureV:
		eq := x.Fn == nil
		if op == token.NEQ {
			eq = !eq
		}
		return BoolV{e.P.Bool(eq)}
	case *ssa.Function, NativeFn, BuiltinV: // func values compare with nil only; these are non-nil
		return BoolV{e.P.Bool(op == token.NEQ)}
	}
	panic(unsupported{fmt.Sprintf("binop %s on %T", op, a)})
}

func (e *Exec) valueEq(a, b Value) *Term {
	switch x := a.(type) {
	case PtrV:
		y, ok := b.(PtrV)
		return e.P.Bool(ok && x.Obj == y.Obj && fmt.Sprint(x.Path) == fmt.Sprint(y.Path))
	case IntV:
		return e.P.Cmp("=", x.T, b.(IntV).T)
	case BoolV:
		return e.P.Eq(x.T, b.(BoolV).T)
	case StrV:
		y := b.(StrV)
		if x.B != nil || y.B != nil {
			return e.strEq(x, y)
		}
		if x.isConc() && y.isConc() {
			return e.P.Bool(x.C == y.C)
		}
		return e.P.Cmp("=", e.strTerm(x), e.strTerm(y))
	case *ArrayV:
		y := b.(*ArrayV)
		r := e.P.Bool(true)
		for i := range x.E {
			r = e.P.And(r, e.valueEq(x.E[i], y.E[i]))
		}
		return r
	case *StructV:
		y := b.(*StructV)
		r := e.P.Bool(true)
		for i := range x.F {
			r = e.P.And(r, e.valueEq(x.F[i], y.F[i]))
		}
		return r
	case IfaceV:
		return e.ifaceEq(x, b.(IfaceV))
	case FloatV:
		return e.P.Bool(x.F == b.(FloatV).F)
	case TimeV:
		return e.P.Cmp("=", x.NS, b.(TimeV).NS)
	case ChanV:
		return e.P.Bool(x.C == b.(ChanV).C)
	}
	panic(unsupported{fmt.Sprintf("valueEq on %T", a)})
}

func (e *Exec) ifaceEq(x, y IfaceV) *Term {
	if x.T == nil || y.T == nil {
		return e.P.Bool(x.T == nil && y.T == nil)
	}
	if !types.Identical(x.T, y.T) {
		return e.P.Bool(false)
	}
	return e.valueEq(x.V, y.V)
}

func (e *Exec) convert(v Value, from, to types.Type) Value {
	if w, s, ok := intInfo(to); ok {
		switch x := v.(type) {
		case IntV:
			return IntV{T: e.P.Extend(x.T, w, x.Signed), Signed: s}
		case OpaqueV:
			return IntV{T: e.fresh("float2int", w), Signed: s}
		case FloatV:
			return IntV{T: e.P.BV(w, uint64(int64(x.F))), Signed: s}
		}
	}
	if b, ok := to.Underlying().(*types.Basic); ok {
		switch b.Kind() {
		case types.Float32, types.Float64:
			switch x := v.(type) {
			case IntV:
				if x.T.IsConst() {
					if x.Signed {
						return FloatV{F: float64(sext(x.T.C, x.T.W))}
					}
					return FloatV{F: float64(x.T.C)}
				}
			case FloatV:
				if b.Kind() == types.Float32 {
					return FloatV{F: float64(float32(x.F))}
				}
				return x
			}
			return OpaqueV{"float"}
		case types.String:
			if iv, ok := v.(IntV); ok { // string(rune)
				return StrV{C: string(rune(e.concInt(iv)))}
			}
			if sv, ok := v.(StrV); ok {
				return sv
			}
			if sl, ok := v.(SliceV); ok {
				bs := make([]byte, sl.Len)
				for i := 0; i < sl.Len; i++ {
					bs[i] = byte(e.concInt(sl.Arr.V.(*ArrayV).E[sl.Off+i]))
				}
				return StrV{C: string(bs)}
			}
		}
	}
	if _, ok := to.Underlying().(*types.Slice); ok {
		if sl, ok := v.(SliceV); ok {
			return sl
		}
		if s, ok := v.(StrV); ok && s.isConc() {
			arr := &ArrayV{E: make([]Value, len(s.C))}
			for i := range arr.E {
				arr.E[i] = IntV{T: e.P.BV(8, uint64(s.C[i]))}
			}
			return SliceV{Arr: e.newObj(arr), Len: len(s.C), Cap: len(s.C)}
		}
	}
	panic(unsupported{fmt.Sprintf("convert %s -> %s", from, to)})
}

func (e *Exec) typeAssert(x *ssa.TypeAssert, v IfaceV) Value {
	ok := false
	if v.T != nil {
		if it, isI := x.AssertedType.Underlying().(*types.Interface); isI {
			ok = types.Implements(v.T, it)
		} else {
			ok = types.Identical(v.T, x.AssertedType)
		}
	}
	var res Value
	if ok {
		if _, isI := x.AssertedType.Underlying().(*types.Interface); isI {
			res = v
		} else {
			res = v.V
		}
	} else {
		if !x.CommaOk {
			panic(goPanic{msg: "interface conversion failed: " + x.String()})
		}
		res = e.zero(x.AssertedType)
	}
	if x.CommaOk {
		return TupleV{res, BoolV{e.P.Bool(ok)}}
	}
	return res
}

func (e *Exec) builtin(name string, args []Value) Value {
	switch name {
	case "len":
		switch a := args[0].(type) {
		case SliceV:
			return IntV{e.P.BV(64, uint64(a.Len)), true}
		case StrV:
			if a.B != nil {
				return IntV{a.L, true}
			}
			if a.isConc() {
				return IntV{e.P.BV(64, uint64(len(a.C))), true}
			}
		case *ArrayV:
			return IntV{e.P.BV(64, uint64(len(a.E))), true}
		case MapV:
			n := 0
			if a.M != nil {
				n = len(a.M.keys)
			}
			return IntV{e.P.BV(64, uint64(n)), true}
		}
	case "cap":
		if a, ok := args[0].(SliceV); ok {
			return IntV{e.P.BV(64, uint64(a.Cap)), true}
		}
	case "append":
		s := args[0].(SliceV)
		t, ok := args[1].(SliceV)
		if sv, isStr := args[1].(StrV); isStr {
			if !sv.isConc() {
				panic(unsupported{"append of a symbolic string"})
			}
			arr := &ArrayV{E: make([]Value, len(sv.C))}
			for i := range arr.E {
				arr.E[i] = IntV{T: e.P.BV(8, uint64(sv.C[i]))}
			}
			t, ok = SliceV{Arr: e.newObj(arr), Len: len(sv.C), Cap: len(sv.C)}, true
		}
		if !ok {
			break
		}
		if t.Len == 0 {
			return s
		}
		n := s.Len + t.Len
		if n <= s.Cap {
			for i := 0; i < t.Len; i++ {
				s.Arr.V.(*ArrayV).E[s.Off+s.Len+i] = copyValue(t.Arr.V.(*ArrayV).E[t.Off+i])
			}
			s.Len = n
			return s
		}
		// growth like the Go runtime (small slices double; size-class rounding is not modelled)
		nc := 2 * s.Cap
		if n > nc {
			nc = n
		} else if s.Cap >= 256 {
			nc = s.Cap + (s.Cap+3*256)/4
			if nc < n {
				nc = n
			}
		}
		arr := &ArrayV{E: make([]Value, nc)}
		for i := 0; i < s.Len; i++ {
			arr.E[i] = copyValue(s.Arr.V.(*ArrayV).E[s.Off+i])
		}
		for i := 0; i < t.Len; i++ {
			arr.E[s.Len+i] = copyValue(t.Arr.V.(*ArrayV).E[t.Off+i])
		}
		var z Value
		if nc > 0 {
			z = arr.E[0]
		}
		for i := n; i < nc; i++ {
			arr.E[i] = zeroLike(z)
		}
		return SliceV{Arr: e.newObj(arr), Len: n, Cap: nc}
	case "copy":
		d := args[0].(SliceV)
		n := 0
		switch src := args[1].(type) {
		case SliceV:
			n = min(d.Len, src.Len)
			tmp := make([]Value, n)
			for i := 0; i < n; i++ {
				tmp[i] = copyValue(src.Arr.V.(*ArrayV).E[src.Off+i])
			}
			for i := 0; i < n; i++ {
				d.Arr.V.(*ArrayV).E[d.Off+i] = tmp[i]
			}
		case StrV:
			if !src.isConc() {
				panic(unsupported{"copy from symbolic string"})
			}
			n = min(d.Len, len(src.C))
			for i := 0; i < n; i++ {
				d.Arr.V.(*ArrayV).E[d.Off+i] = IntV{T: e.P.BV(8, uint64(src.C[i]))}
			}
		default:
			panic(unsupported{fmt.Sprintf("copy from %T", args[1])})
		}
		return IntV{e.P.BV(64, uint64(n)), true}
	case "min", "max":
		acc := args[0]
		for _, a := range args[1:] {
			var lt Value
			if name == "min" {
				lt = e.binop(token.LSS, a, acc, nil)
			} else {
				lt = e.binop(token.GTR, a, acc, nil)
			}
			switch x := acc.(type) {
			case IntV:
				acc = IntV{T: e.P.Ite(lt.(BoolV).T, a.(IntV).T, x.T), Signed: x.Signed}
			default:
				if e.decide(lt.(BoolV).T) {
					acc = a
				}
			}
		}
		return acc
	case "clear":
		switch x := args[0].(type) {
		case MapV:
			if x.M != nil {
				x.M.keys, x.M.vals = nil, nil
			}
		case SliceV:
			for i := 0; i < x.Len; i++ {
				x.Arr.V.(*ArrayV).E[x.Off+i] = zeroLike(x.Arr.V.(*ArrayV).E[x.Off+i])
			}
		}
		return nil
	case "close":
		c := args[0].(ChanV)
		if c.C == nil || c.C.closed {
			panic(goPanic{msg: "close of nil or closed channel"})
		}
		e.schedPoint("close")
		c.C.closed = true
		return nil
	case "delete":
		m := args[0].(MapV)
		if m.M != nil {
			if i := e.mapFind(m.M, args[1]); i >= 0 {
				m.M.keys = append(m.M.keys[:i:i], m.M.keys[i+1:]...)
				m.M.vals = append(m.M.vals[:i:i], m.M.vals[i+1:]...)
			}
		}
		return nil
	case "ssa:wrapnilchk":
		if p, ok := args[0].(PtrV); ok && p.Obj == nil {
			panic(goPanic{msg: "value method called using nil pointer"})
		}
		return args[0]
	case "recover":
		th := e.curThread()
		// recover() is effective in a function called directly by the deferring frame's runDefers
		if n := len(th.deferStack); n > 0 {
			fr := th.deferStack[n-1]
			if fr.panicking != nil {
				v := e.panicValue(fr.panicking)
				fr.panicking = nil
				return v
			}
		}
		return IfaceV{}
	}
	panic(unsupported{"builtin " + name})
}

func zeroLike(v Value) Value {
	switch v.(type) {
	case PtrV:
		return PtrV{}
	case IfaceV:
		return IfaceV{}
	}
	return v
}

func calleeName(fn *ssa.Function) string {
	s := fn.String()
	if i := strings.Index(s, "["); i >= 0 && fn.Origin() != nil {
		return fn.Origin().String()
	}
	return s
}
