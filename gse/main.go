package main

import (
	"encoding/json"
	"flag"
	"fmt"
	"os"
	"path/filepath"
	"sort"
	"strconv"
	"strings"
	"time"
)

type knownFinding struct {
	Property string
	Key      string
	Msg      string // substring the violated assertion / panic text must contain
	Text     string
}

// loadKnown parses /verif/KNOWN_FINDINGS.txt. Lines:
//
//	finding: property=C16 key=<slug> msg=<substring with _ for spaces> <free text>
//	fixed: property=C16 <commit> <free text>        (suppresses nothing)
func loadKnown() (map[string]knownFinding, error) {
	out := map[string]knownFinding{}
	b, err := os.ReadFile(filepath.Join(verifDir, "KNOWN_FINDINGS.txt"))
	if err != nil {
		if os.IsNotExist(err) {
			return out, nil
		}
		return nil, err
	}
	for _, l := range strings.Split(string(b), "\n") {
		l = strings.TrimSpace(l)
		if !strings.HasPrefix(l, "finding:") {
			continue
		}
		kf := knownFinding{}
		fs := strings.Fields(strings.TrimPrefix(l, "finding:"))
		rest := []string{}
		for _, f := range fs {
			switch {
			case strings.HasPrefix(f, "property=") && kf.Property == "":
				kf.Property = strings.TrimPrefix(f, "property=")
			case strings.HasPrefix(f, "key=") && kf.Key == "":
				kf.Key = strings.TrimPrefix(f, "key=")
			case strings.HasPrefix(f, "msg=") && kf.Msg == "":
				kf.Msg = strings.ReplaceAll(strings.TrimPrefix(f, "msg="), "_", " ")
			default:
				rest = append(rest, f)
			}
		}
		kf.Text = strings.Join(rest, " ")
		if kf.Key != "" {
			out[kf.Key] = kf
		}
	}
	return out, nil
}

func main() {
	if len(os.Args) < 2 {
		fmt.Fprintln(os.Stderr, "usage: gse check -id C01 -tier quick|thorough")
		os.Exit(2)
	}
	switch os.Args[1] {
	case "check":
		os.Exit(cmdCheck(os.Args[2:]))
	default:
		fmt.Fprintln(os.Stderr, "unknown command", os.Args[1])
		os.Exit(2)
	}
}

type canaryResult struct {
	Name     string  `json:"name"`
	Unit     string  `json:"unit"`
	Status   string  `json:"status"` // detected | not-detected | skipped(pattern) | error
	Paths    int     `json:"paths"`
	Found    string  `json:"found,omitempty"`
	WallS    float64 `json:"wall_s"`
}

func cmdCheck(args []string) int {
	fs := flag.NewFlagSet("check", flag.ExitOnError)
	id := fs.String("id", "", "property id")
	tier := fs.String("tier", "quick", "quick|thorough")
	only := fs.String("unit", "", "run only this unit")
	noCanary := fs.Bool("no-canaries", false, "skip canaries")
	noNative := fs.Bool("no-native", false, "skip native replay/validation (debug only: result is then inconclusive on counterexamples)")
	smtlog := fs.String("smtlog", "", "prefix for SMT-LIB2 logs")
	verbose := fs.Bool("v", false, "verbose")
	vd := fs.String("verif", "/verif", "verif dir")
	rd := fs.String("repo", "/repo", "repository tree to encode (default /repo; a scratch worktree for seed triage)")
	fs.Parse(args)
	verifDir = *vd
	repoDir = *rd
	if env := os.Getenv("VERIF_TIER"); env != "" && *tier == "" {
		*tier = env
	}
	seed := int64(0)
	if s := os.Getenv("VERIF_SEED"); s != "" {
		seed, _ = strconv.ParseInt(s, 10, 64)
	}
	os.Setenv("PATH", "/opt/veriftools/go1.26.8/bin:"+os.Getenv("PATH"))
	os.Setenv("GOFLAGS", "-mod=mod")
	os.Setenv("GOPROXY", "off")
	os.Setenv("GOSUMDB", "off")
	os.Setenv("GOTOOLCHAIN", "local")
	t0 := time.Now()
	spec, propDir, err := loadSpec(*id)
	if err != nil {
		fmt.Println("ERROR:", err)
		return 2
	}
	known, err := loadKnown()
	if err != nil {
		fmt.Println("ERROR:", err)
		return 2
	}
	os.RemoveAll(filepath.Join(verifDir, "replay", "last", spec.ID))

	var results []*UnitResult
	var canaries []canaryResult
	inconclusive := []string{}
	violationLines := []string{}
	knownLines := []string{}
	knownConfirmed := []string{}
	crossChecks := []interface{}{}
	validated, validationMismatch := 0, 0
	replays := 0
	nativeS := 0.0

	for _, u := range spec.Units {
		if *only != "" && u.Name != *only {
			continue
		}
		tc := u.Tiers[*tier]
		if tc == nil {
			tc = u.Tiers["quick"]
		}
		if tc == nil || tc.Skip {
			continue
		}
		tl := time.Now()
		ov, err := overlayFor(u, propDir, false, nil)
		if err != nil {
			fmt.Println("ERROR:", err)
			return 2
		}
		ld, err := loadProgram(u, ov)
		if err != nil {
			fmt.Printf("ERROR: loading %s: %v\n", u.Name, err)
			return 2
		}
		loadS := time.Since(tl).Seconds()
		res := explore(ld, u, tc, seed, *smtlog)
		res.LoadS = loadS
		res.Tier = *tier
		results = append(results, res)
		fmt.Printf("[%s/%s] load %.1fs explore %.1fs paths=%d aborted=%d steps=%d decisions=%d queries=%d (sat %d unsat %d unknown %d, %.1fs) asserts=%d(+%d trivial) unsat=%d counterexamples=%d\n",
			spec.ID, u.Name, res.LoadS, res.ExploreS, res.Paths, res.Aborted, res.Steps, res.Decisions, res.Queries, res.Sat, res.Unsat, res.Unknown, res.SolverS,
			res.Asserts, res.AssertsTrivial, res.AssertsUnsat, len(res.Viols))
		if *verbose {
			fmt.Println("  abort reasons:", res.AbortReasons)
			var fns []string
			for f := range res.FuncSteps {
				fns = append(fns, f)
			}
			sort.Slice(fns, func(i, j int) bool { return res.FuncSteps[fns[i]] > res.FuncSteps[fns[j]] })
			for i, f := range fns {
				if i > 40 {
					break
				}
				fmt.Printf("    %-100s %d\n", f, res.FuncSteps[f])
			}
		}
		for _, s := range dedup(res.Unsup) {
			fmt.Printf("  INCONCLUSIVE: %s\n", s)
			inconclusive = append(inconclusive, u.Name+": "+s)
		}
		if res.Truncated {
			inconclusive = append(inconclusive, u.Name+": path budget exhausted (bound too large for this tier)")
		}
		for _, l := range u.Labels {
			if !res.Reached[l] {
				fmt.Printf("  VACUOUS: witness label %q never reached\n", l)
				inconclusive = append(inconclusive, u.Name+": vacuous, label "+l+" not reached")
			}
		}

		// ---- counterexamples: group, replay natively ----
		nb := &nativeBuilder{}
		groups := map[string][]*Violation{}
		var order []string
		for i := range res.Viols {
			v := &res.Viols[i]
			k := v.Kind + "|" + v.Known + "|" + v.Msg
			if _, ok := groups[k]; !ok {
				order = append(order, k)
			}
			groups[k] = append(groups[k], v)
		}
		for _, k := range order {
			g := groups[k]
			v0 := g[0]
			fmt.Printf("  counterexample class (%d models): kind=%s known=%q msg=%q\n", len(g), v0.Kind, v0.Known, v0.Msg)
			if *verbose {
				fmt.Printf("    values=%v gates=%v sched=%v trace=%v\n", v0.Values, v0.Gates, v0.Sched, v0.Trace)
			}
			if *noNative || u.NoReplay {
				inconclusive = append(inconclusive, u.Name+": counterexample not replayed: "+v0.Msg)
				continue
			}
			tn := time.Now()
			if err := nb.build(spec, u, propDir); err != nil {
				fmt.Println("  ERROR:", err)
				inconclusive = append(inconclusive, u.Name+": native build failed")
				nativeS += time.Since(tn).Seconds()
				continue
			}
			confirmed := ""
			var last Outcome
			tries := g
			maxTries := 4
			if u.Sched != "" && u.Sched != "runtoblock" {
				maxTries = 12 // native goroutine scheduling between two gates is not controlled: more models, more attempts
			}
			if len(tries) > maxTries {
				tries = tries[:maxTries]
			}
			classStart := time.Now()
			for _, v := range tries {
				if time.Since(classStart) > 6*time.Minute {
					break // replay budget of one counterexample class: what did not reproduce by now stays unconfirmed
				}
				replays++
				p, _ := writeReplay(spec, u, tc, v, v.Kind+":"+v.Msg, replays, filepath.Join("last", spec.ID))
				attempts := 1
				if u.Sched != "" && u.Sched != "runtoblock" {
					attempts = 30
				}
				for a := 0; a < attempts && confirmed == "" && time.Since(classStart) <= 6*time.Minute; a++ {
					last = nb.run(p)
					if confirms(v, last) {
						confirmed = p
					}
				}
				if confirmed != "" {
					break
				}
			}
			nativeS += time.Since(tn).Seconds()
			if confirmed == "" {
				fmt.Printf("  UNCONFIRMED: native replay gave status=%s fails=%v panic=%q note=%q\n", last.Status, last.Fails, last.Panic, firstLine(last.Note))
				if *verbose {
					fmt.Println(last.Raw)
				}
				inconclusive = append(inconclusive, u.Name+": counterexample did not reproduce natively: "+v0.Msg)
				continue
			}
			if v0.Known != "" {
				kf, ok := known[v0.Known]
				if ok && kf.Property == spec.ID && (kf.Msg == "" || strings.Contains(v0.Msg, kf.Msg)) {
					// keep the replay file of a known finding under replay/known
					kp, _ := writeReplay(spec, u, tc, v0, v0.Kind+":"+v0.Msg, 0, filepath.Join("known", v0.Known))
					_ = kp
					line := fmt.Sprintf("KNOWN-FINDING: property=%s key=%s %s [%s: %s]", spec.ID, kf.Key, kf.Text, v0.Kind, v0.Msg)
					if !contains(knownConfirmed, kf.Key+"|"+v0.Msg) {
						knownConfirmed = append(knownConfirmed, kf.Key+"|"+v0.Msg)
						knownLines = append(knownLines, line)
					}
					continue
				}
			}
			keep, _ := writeReplay(spec, u, tc, v0, v0.Kind+":"+v0.Msg, len(violationLines)+1, "violations")
			if confirmed != "" {
				// the confirmed model may be another member of the class: copy it
				if b, err := os.ReadFile(confirmed); err == nil {
					os.WriteFile(keep, b, 0o644)
				}
			}
			violationLines = append(violationLines, fmt.Sprintf("VIOLATION property=%s replay=%s", spec.ID, keep))
			fmt.Printf("  confirmed natively: %s (%s)\n", v0.Msg, v0.Kind)
		}

		// ---- differential validation of explored paths ----
		if len(res.Samples) > 0 && !*noNative && !u.NoReplay {
			tn := time.Now()
			if err := nb.build(spec, u, propDir); err != nil {
				fmt.Println("  ERROR:", err)
				inconclusive = append(inconclusive, u.Name+": native build failed")
			} else {
				for i := range res.Samples {
					s := &res.Samples[i]
					v := &Violation{Values: s.Values, Clock0: s.Clock0, Gates: s.Gates, Trace: s.Trace, Path: s.Path, Msg: "validation sample"}
					p, _ := writeReplay(spec, u, tc, v, "pass", i+1, filepath.Join("last", spec.ID, "samples-"+u.Name))
					o := nb.run(p)
					want, got := s.Trace, o.Trace
					if u.Sched != "" && u.Sched != "runtoblock" {
						want, got = sorted(want), sorted(got)
					}
					if o.Status == "pass" && sameTrace(want, got) {
						validated++
					} else {
						validationMismatch++
						fmt.Printf("  VALIDATION MISMATCH on %s: native status=%s fails=%v panic=%q note=%q\n    engine trace=%v\n    native trace=%v\n", p, o.Status, o.Fails, o.Panic, firstLine(o.Note), s.Trace, o.Trace)
						if *verbose {
							fmt.Println(o.Raw)
						}
					}
				}
			}
			nativeS += time.Since(tn).Seconds()
		}

		// ---- solver cross-check: the whole unit once more with the other back end as primary ----
		if tc.Cross {
			tx := time.Now()
			u2 := *u
			if u.Solver == "cvc5int" {
				u2.Solver = "z3"
			} else {
				u2.Solver = "cvc5int"
			}
			tcc := *tc
			tcc.Validate = 0
			r2 := explore(ld, &u2, &tcc, seed, "")
			same := r2.Paths == res.Paths && r2.Aborted == res.Aborted && r2.Asserts == res.Asserts && r2.AssertsUnsat == res.AssertsUnsat && len(r2.Viols) == len(res.Viols) && len(r2.Unsup) == 0
			fmt.Printf("  cross-check with %s as primary solver: paths=%d asserts=%d unsat=%d counterexamples=%d -> %v (%.1fs)\n", u2.Solver, r2.Paths, r2.Asserts, r2.AssertsUnsat, len(r2.Viols), same, time.Since(tx).Seconds())
			crossChecks = append(crossChecks, map[string]interface{}{"unit": u.Name, "other_primary": u2.Solver, "agree": same, "paths": r2.Paths, "asserts_unsat": r2.AssertsUnsat, "wall_s": time.Since(tx).Seconds()})
			if !same {
				inconclusive = append(inconclusive, u.Name+": solver back ends disagree (z3 vs cvc5 bv-as-int)")
			}
		}

		// ---- canaries ----
		if !*noCanary {
			for i := range u.Canaries {
				c := &u.Canaries[i]
				if c.Tier == "thorough" && *tier != "thorough" {
					continue
				}
				tcn := time.Now()
				cr := canaryResult{Name: c.Name, Unit: u.Name}
				ovm, err := overlayFor(u, propDir, false, c)
				if err == errCanaryNoMatch {
					cr.Status = "skipped(pattern no longer matches the source)"
				} else if err != nil {
					cr.Status = "error: " + err.Error()
				} else if ldm, err := loadProgram(u, ovm); err != nil {
					cr.Status = "skipped(mutant does not compile)"
				} else {
					tcc := *tc
					tcc.Validate = 0
					r := explore(ldm, u, &tcc, seed, "")
					cr.Paths = r.Paths
					nk := 0
					for _, v := range r.Viols {
						if v.Known == "" {
							nk++
							if cr.Found == "" {
								cr.Found = v.Kind + ": " + v.Msg
							}
						}
					}
					if nk > 0 {
						cr.Status = "detected"
					} else {
						cr.Status = "not-detected"
						inconclusive = append(inconclusive, u.Name+": canary "+c.Name+" not detected")
					}
				}
				cr.WallS = time.Since(tcn).Seconds()
				fmt.Printf("  canary %s: %s (%s, %.1fs)\n", c.Name, cr.Status, cr.Found, cr.WallS)
				canaries = append(canaries, cr)
			}
		}
	}
	if validationMismatch > 0 {
		inconclusive = append(inconclusive, fmt.Sprintf("%d engine-vs-native validation mismatches", validationMismatch))
	}
	for _, l := range knownLines {
		fmt.Println(l)
	}
	for _, l := range violationLines {
		fmt.Println(l)
	}
	wall := time.Since(t0).Seconds()
	status := 0
	if len(violationLines) > 0 {
		status = 1
	} else if len(inconclusive) > 0 {
		status = 2
	}
	crossChecksOut = crossChecks
	if err := writeEvidence(spec, *tier, seed, results, canaries, knownConfirmed, inconclusive, len(violationLines), validated, replays, nativeS, wall, status); err != nil {
		fmt.Println("ERROR: writing evidence:", err)
		return 2
	}
	for _, s := range inconclusive {
		fmt.Println("INCONCLUSIVE:", s)
	}
	fmt.Printf("[%s] tier=%s wall=%.1fs exit=%d\n", spec.ID, *tier, wall, status)
	return status
}

func dedup(xs []string) []string {
	seen := map[string]bool{}
	var out []string
	for _, x := range xs {
		if !seen[x] {
			seen[x] = true
			out = append(out, x)
		}
	}
	return out
}

func contains(xs []string, s string) bool {
	for _, x := range xs {
		if x == s {
			return true
		}
	}
	return false
}

func sorted(xs []string) []string {
	out := append([]string{}, xs...)
	sort.Strings(out)
	return out
}

func firstLine(s string) string {
	if i := strings.Index(s, "\n"); i >= 0 {
		return s[:i]
	}
	return s
}

var _ = json.Marshal

var crossChecksOut []interface{}
