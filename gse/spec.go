package main

import (
	"encoding/json"
	"fmt"
	"os"
	"path/filepath"
	"strings"
	"sync"
)

const (
	modPath    = "github.com/celestiaorg/go-header"
	zzPkgPath  = modPath + "/internal/zzverif"
	hdrPkgPath = modPath + "/internal/zzhdr"
)

var verifDir = "/verif"

// repoDir is the tree the encoding is generated from; /repo unless a scratch copy is named (seed triage only).
var repoDir = "/repo"

// Spec describes the check of one property: a list of units, each one harness over one package.
type Spec struct {
	ID          string   `json:"id"`
	Level       string   `json:"level"` // proof | model_checking
	Units       []*Unit  `json:"units"`
	Assumptions []string `json:"assumptions"`
	TrustedBase []string `json:"trusted_base"`
	Outside     []string `json:"outside"` // what lies outside the bounds (stated once, copied into evidence)
}

type Stub struct {
	File string `json:"file"` // repo-relative
	Func string `json:"func"` // top-level function (or "Recv.Method") renamed to zzorig_<Func>; the harness file defines the replacement
}

// Yield is an overlay-only scheduling point: a zzverif.Gate(label) call inserted after the (single) source
// line containing After. Nothing is written to /repo; the engine and the native replay build see the same
// overlaid file. If the anchor does not occur exactly once (the code changed) the point is left out.
type Yield struct {
	File  string `json:"file"`  // repo-relative
	After string `json:"after"` // text of one complete statement line
	Label string `json:"label"`
}

type Canary struct {
	Name string `json:"name"`
	File string `json:"file"`
	Old  string `json:"old"`
	New  string `json:"new"`
	Tier string `json:"tier"` // "quick": run in both tiers; "thorough": thorough only
	// More: further replacements in the same file (a mutation made of cooperating edits)
	More []struct {
		Old string `json:"old"`
		New string `json:"new"`
	} `json:"more"`
}

type TierCfg struct {
	Skip     bool           `json:"skip"`
	Params   map[string]int `json:"params"`
	Unwind   int            `json:"unwind"`
	PBound   int            `json:"pbound"`
	MaxPaths int            `json:"max_paths"`
	Validate int            `json:"validate"` // number of explored paths replayed natively for the differential check
	Workers  int            `json:"workers"`
	Cross    bool           `json:"cross"` // re-run assertion queries on the other solvers
	MaxSteps int            `json:"max_steps"`
}

type Unit struct {
	Name     string              `json:"name"`
	Pkg      string              `json:"pkg"`    // import path relative to the module ("" = root, "sync", "store", "p2p")
	Files    []string            `json:"files"`  // harness sources under props/<ID>/
	Shared   []string            `json:"shared"` // shared harness sources under /verif/zz/shared/ (copied into the package)
	UseHdr   bool                `json:"use_hdr"`
	Harness  string              `json:"harness"`
	Sched    string              `json:"sched"`
	Solver   string              `json:"solver"`
	Level    string              `json:"level"` // overrides Spec.Level for the obligations of this unit
	Labels   []string            `json:"labels"`
	Stubs    []Stub              `json:"stubs"`
	Yields   []Yield             `json:"yields"`
	Canaries []Canary            `json:"canaries"`
	Tiers    map[string]*TierCfg `json:"tiers"`
	Bounds   map[string]string   `json:"bounds"` // free-text description of each bound, per tier or common
	NoReplay bool                `json:"no_replay"`
	Clock    string              `json:"clock"`     // "concrete": the clock starts at a fixed instant (units whose property does not depend on time)
	InitPkgs []string            `json:"init_pkgs"` // extra packages whose init must be interpreted
}

func (u *Unit) ImportPath() string {
	if u.Pkg == "" {
		return modPath
	}
	return modPath + "/" + u.Pkg
}

func (u *Unit) Dir() string { return filepath.Join(repoDir, u.Pkg) }

func loadSpec(id string) (*Spec, string, error) {
	dir := filepath.Join(verifDir, "props", id)
	b, err := os.ReadFile(filepath.Join(dir, "spec.json"))
	if err != nil {
		return nil, "", err
	}
	s := &Spec{}
	dec := json.NewDecoder(strings.NewReader(string(b)))
	dec.DisallowUnknownFields()
	if err := dec.Decode(s); err != nil {
		return nil, "", fmt.Errorf("%s/spec.json: %w", dir, err)
	}
	if s.ID != id {
		return nil, "", fmt.Errorf("spec id %q != %q", s.ID, id)
	}
	return s, dir, nil
}

// overlayFor builds the overlay (virtual path -> contents) for a unit. native selects the replay build.
func overlayFor(u *Unit, propDir string, native bool, mutate *Canary) (map[string][]byte, error) {
	ov := map[string][]byte{}
	add := func(virt, real string) error {
		b, err := os.ReadFile(real)
		if err != nil {
			return err
		}
		ov[virt] = b
		return nil
	}
	zzdir := filepath.Join(verifDir, "zz", "zzverif")
	if err := add(filepath.Join(repoDir, "internal/zzverif/api.go"), filepath.Join(zzdir, "api.go")); err != nil {
		return nil, err
	}
	if native {
		if err := add(filepath.Join(repoDir, "internal/zzverif/replay_native.go"), filepath.Join(zzdir, "replay_native.go")); err != nil {
			return nil, err
		}
	}
	if u.UseHdr {
		if err := add(filepath.Join(repoDir, "internal/zzhdr/zzhdr.go"), filepath.Join(verifDir, "zz", "zzhdr", "zzhdr.go")); err != nil {
			return nil, err
		}
	}
	for _, f := range u.Files {
		if err := add(filepath.Join(u.Dir(), "zz_"+filepath.Base(f)), filepath.Join(propDir, f)); err != nil {
			return nil, err
		}
	}
	for _, f := range u.Shared {
		b, err := os.ReadFile(filepath.Join(verifDir, "zz", "shared", f))
		if err != nil {
			return nil, err
		}
		// shared sources are written for "package PKG": substitute the package clause
		pkgName := filepath.Base(u.Dir())
		if u.Pkg == "" {
			pkgName = "header"
		}
		src := strings.Replace(string(b), "package PKG", "package "+pkgName, 1)
		ov[filepath.Join(u.Dir(), "zz_"+filepath.Base(f))] = []byte(src)
	}
	for _, st := range u.Stubs {
		p := filepath.Join(repoDir, st.File)
		src, ok := ov[p]
		if !ok {
			b, err := os.ReadFile(p)
			if err != nil {
				return nil, err
			}
			src = b
		}
		out, err := renameFunc(string(src), st.Func)
		if err != nil {
			return nil, fmt.Errorf("stub %s in %s: %w", st.Func, st.File, err)
		}
		ov[p] = []byte(out)
	}
	for _, y := range u.Yields {
		p := filepath.Join(repoDir, y.File)
		src, ok := ov[p]
		if !ok {
			b, err := os.ReadFile(p)
			if err != nil {
				return nil, err
			}
			src = b
		}
		text := string(src)
		if strings.Count(text, y.After) != 1 || !strings.Contains(text, "\nimport (\n") {
			yieldsMu.Lock()
			yieldsSkipped[u.Name+":"+y.Label] = true
			yieldsMu.Unlock()
			continue
		}
		i := strings.Index(text, y.After)
		j := i + len(y.After)
		for j < len(text) && text[j] != '\n' {
			j++
		}
		text = text[:j] + "\n\tzzyield.Gate(" + fmt.Sprintf("%q", y.Label) + ")" + text[j:]
		if !strings.Contains(text, "zzyield \"") {
			text = strings.Replace(text, "\nimport (\n", "\nimport (\n\tzzyield \""+zzPkgPath+"\"\n", 1)
		}
		ov[p] = []byte(text)
	}
	if mutate != nil {
		p := filepath.Join(repoDir, mutate.File)
		src, ok := ov[p]
		if !ok {
			b, err := os.ReadFile(p)
			if err != nil {
				return nil, err
			}
			src = b
		}
		if !strings.Contains(string(src), mutate.Old) {
			return nil, errCanaryNoMatch
		}
		text := strings.Replace(string(src), mutate.Old, mutate.New, 1)
		for _, m := range mutate.More {
			if !strings.Contains(text, m.Old) {
				return nil, errCanaryNoMatch
			}
			text = strings.Replace(text, m.Old, m.New, 1)
		}
		ov[p] = []byte(text)
	}
	return ov, nil
}

// yieldsSkipped records overlay scheduling points whose anchor no longer matches (reported in the evidence).
var yieldsSkipped = map[string]bool{}
var yieldsMu sync.Mutex

var errCanaryNoMatch = fmt.Errorf("canary pattern not found")

// renameFunc renames the declaration of a top-level function or method ("Recv.Method") to zzorig_<name>.
func renameFunc(src, fn string) (string, error) {
	name := fn
	if i := strings.Index(fn, "."); i >= 0 {
		name = fn[i+1:]
		recv := fn[:i]
		// method: find "func (x *Recv[...]) name(" — match on ") name(" after a receiver mentioning recv
		lines := strings.Split(src, "\n")
		for i, l := range lines {
			if strings.HasPrefix(l, "func (") && strings.Contains(l, recv) && strings.Contains(l, ") "+name+"(") {
				lines[i] = strings.Replace(l, ") "+name+"(", ") zzorig_"+name+"(", 1)
				return strings.Join(lines, "\n"), nil
			}
		}
		return "", fmt.Errorf("method declaration not found")
	}
	for _, pat := range []string{"func " + name + "(", "func " + name + "["} {
		if strings.Contains(src, "\n"+pat) {
			return strings.Replace(src, "\n"+pat, "\nfunc zzorig_"+name+pat[len("func "+name):], 1), nil
		}
	}
	return "", fmt.Errorf("function declaration not found")
}
