package main

import (
	"bufio"
	"fmt"
	"io"
	"os/exec"
	"strings"
	"time"
)

// Solver drives one long-lived SMT-LIB2 process.
type Solver struct {
	cmd     *exec.Cmd
	in      io.WriteCloser
	out     *bufio.Reader
	defined map[int]bool   // term id -> defined (level 0)
	decl    map[string]bool // declared vars / ufs
	Queries int
	Sat     int
	Unsat   int
	Unknown int
	Time    time.Duration
	log     io.Writer
	Argv    string
	dead    bool
}

func NewSolver(argv []string, log io.Writer) (*Solver, error) {
	cmd := exec.Command(argv[0], argv[1:]...)
	in, err := cmd.StdinPipe()
	if err != nil {
		return nil, err
	}
	outp, err := cmd.StdoutPipe()
	if err != nil {
		return nil, err
	}
	cmd.Stderr = cmd.Stdout
	if err := cmd.Start(); err != nil {
		return nil, err
	}
	s := &Solver{cmd: cmd, in: in, out: bufio.NewReader(outp), defined: map[int]bool{}, decl: map[string]bool{}, log: log, Argv: strings.Join(argv, " ")}
	s.send("(set-option :print-success false)")
	s.send("(set-option :produce-models true)")
	if strings.Contains(argv[0], "cvc5") {
		s.send("(set-logic ALL)")
	} else {
		s.send("(set-option :timeout 20000)")
	}
	return s, nil
}

// Portfolio is the solver back end of one worker: a primary process and a lazily started
// secondary one that is asked when the primary answers unknown.
type Portfolio struct {
	Primary   *Solver
	Secondary *Solver
	secArgv   []string
	log       io.Writer
}

var (
	argvZ3      = []string{"z3", "-in"}
	argvCVC5Int = []string{"cvc5", "--incremental", "--produce-models", "--solve-bv-as-int=sum", "--tlimit-per=60000"}
	argvCVC5    = []string{"cvc5", "--incremental", "--produce-models", "--tlimit-per=60000"}
	argvZ3New   = []string{"z3-new", "-in"}
)

func solverArgv(name string) []string {
	switch name {
	case "cvc5int":
		return argvCVC5Int
	case "cvc5":
		return argvCVC5
	case "z3-new":
		return argvZ3New
	}
	return argvZ3
}

func NewPortfolio(primary string, log io.Writer) (*Portfolio, error) {
	p, err := NewSolver(solverArgv(primary), log)
	if err != nil {
		return nil, err
	}
	sec := argvCVC5Int
	if primary == "cvc5int" {
		sec = argvZ3
	}
	return &Portfolio{Primary: p, secArgv: sec, log: log}, nil
}

func (p *Portfolio) Check(conj []*Term, want []*Term) (string, map[*Term]uint64, error) {
	r, m, err := p.Primary.Check(conj, want)
	if err == nil && r != "unknown" {
		return r, m, nil
	}
	if err != nil && p.Primary.dead {
		return "", nil, err
	}
	if p.Secondary == nil {
		s, e2 := NewSolver(p.secArgv, p.log)
		if e2 != nil {
			return r, m, err
		}
		p.Secondary = s
	}
	return p.Secondary.Check(conj, want)
}

func (p *Portfolio) Close() {
	p.Primary.Close()
	if p.Secondary != nil {
		p.Secondary.Close()
	}
}

func (p *Portfolio) Stats() (q, sat, unsat, unknown int, t time.Duration, by map[string]int) {
	by = map[string]int{}
	for _, s := range []*Solver{p.Primary, p.Secondary} {
		if s == nil {
			continue
		}
		q += s.Queries
		sat += s.Sat
		unsat += s.Unsat
		unknown += s.Unknown
		t += s.Time
		by[s.Argv] += s.Queries
	}
	return
}

func (s *Solver) send(line string) {
	if s.log != nil {
		fmt.Fprintln(s.log, line)
	}
	io.WriteString(s.in, line+"\n")
}

func (s *Solver) Close() { s.send("(exit)"); s.in.Close(); s.cmd.Wait() }

// ref returns the SMT text referring to t, emitting definitions as needed.
func (s *Solver) ref(t *Term) string {
	switch t.Op {
	case "const":
		return constStr(t)
	case "var":
		n := "v_" + t.Name
		if !s.decl[n] {
			s.decl[n] = true
			s.send(fmt.Sprintf("(declare-const %s %s)", n, sortOf(t.W)))
		}
		return n
	}
	name := fmt.Sprintf("t%d", t.id)
	if s.defined[t.id] {
		return name
	}
	args := make([]string, len(t.Args))
	for i, a := range t.Args {
		args[i] = s.ref(a)
	}
	var body string
	switch t.Op {
	case "uf":
		fn := "f_" + t.Name
		if !s.decl[fn] {
			s.decl[fn] = true
			var as []string
			for _, a := range t.Args {
				as = append(as, sortOf(a.W))
			}
			s.send(fmt.Sprintf("(declare-fun %s (%s) %s)", fn, strings.Join(as, " "), sortOf(t.W)))
		}
		if len(args) == 0 {
			body = fn
		} else {
			body = fmt.Sprintf("(%s %s)", fn, strings.Join(args, " "))
		}
	case "extract":
		body = fmt.Sprintf("((_ extract %d 0) %s)", t.W-1, args[0])
	case "zext":
		body = fmt.Sprintf("((_ zero_extend %d) %s)", t.W-t.Args[0].W, args[0])
	case "sext":
		body = fmt.Sprintf("((_ sign_extend %d) %s)", t.W-t.Args[0].W, args[0])
	default:
		body = fmt.Sprintf("(%s %s)", t.Op, strings.Join(args, " "))
	}
	s.send(fmt.Sprintf("(define-fun %s () %s %s)", name, sortOf(t.W), body))
	s.defined[t.id] = true
	return name
}

func (s *Solver) readLine() (string, error) {
	for {
		l, err := s.out.ReadString('\n')
		if err != nil {
			return "", err
		}
		l = strings.TrimSpace(l)
		if l != "" {
			return l, nil
		}
	}
}

// Check asks whether the conjunction is satisfiable. Result: "sat","unsat","unknown".
// If wantModel lists terms and the answer is sat, their values are returned.
func (s *Solver) Check(conj []*Term, want []*Term) (string, map[*Term]uint64, error) {
	t0 := time.Now()
	defer func() { s.Time += time.Since(t0) }()
	s.Queries++
	refs := make([]string, len(conj))
	for i, c := range conj {
		refs[i] = s.ref(c)
	}
	wrefs := make([]string, len(want))
	for i, w := range want {
		wrefs[i] = s.ref(w)
	}
	s.send("(push 1)")
	for _, r := range refs {
		s.send("(assert " + r + ")")
	}
	s.send("(check-sat)")
	res, err := s.readLine()
	if err != nil {
		s.dead = true
		return "", nil, err
	}
	for strings.HasPrefix(res, "(warning") || strings.HasPrefix(res, "Warning") {
		if res, err = s.readLine(); err != nil {
			s.dead = true
			return "", nil, err
		}
	}
	if strings.HasPrefix(res, "(error") {
		s.send("(pop 1)")
		return "", nil, fmt.Errorf("solver error: %s", res)
	}
	var model map[*Term]uint64
	switch res {
	case "sat":
		s.Sat++
		if len(want) > 0 {
			model = map[*Term]uint64{}
			for i, w := range want {
				s.send("(get-value (" + wrefs[i] + "))")
				l, err := s.readLine()
				if err != nil {
					return "", nil, err
				}
				model[w] = parseValue(l)
			}
		}
	case "unsat":
		s.Unsat++
	default:
		s.Unknown++
	}
	s.send("(pop 1)")
	return res, model, nil
}

// parseValue parses "((name #x..))" / "((name true))" / "((name #b..))".
func parseValue(l string) uint64 {
	l = strings.TrimRight(l, ") ")
	i := strings.LastIndexAny(l, " (")
	v := l[i+1:]
	switch {
	case v == "true":
		return 1
	case v == "false":
		return 0
	case strings.HasPrefix(v, "#x"):
		var x uint64
		fmt.Sscanf(v[2:], "%x", &x)
		return x
	case strings.HasPrefix(v, "#b"):
		var x uint64
		for _, c := range v[2:] {
			x = x<<1 | uint64(c-'0')
		}
		return x
	}
	return 0
}
