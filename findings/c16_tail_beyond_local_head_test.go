package sync

// Demonstration of the known finding C16-new-tail-beyond-local-head against the REAL Store
// (not the specification store of the harness). Copy into /repo/sync/ and run:
//   go test -vet=off -count=1 -run TestZZTailBeyondLocalHead ./sync/
// The test passes when the defect is present (it asserts the failure) and documents the message.

import (
	"context"
	"testing"
	"time"

	"github.com/ipfs/go-datastore"
	dssync "github.com/ipfs/go-datastore/sync"
	"github.com/stretchr/testify/require"

	"github.com/celestiaorg/go-header/headertest"
	"github.com/celestiaorg/go-header/store"
)

func TestZZTailBeyondLocalHead(t *testing.T) {
	ctx, cancel := context.WithTimeout(context.Background(), 10*time.Second)
	t.Cleanup(cancel)

	suite := headertest.NewTestSuite(t)
	remote := headertest.NewStore[*headertest.DummyHeader](t, suite, 300)

	ds := dssync.MutexWrap(datastore.NewMapDatastore())
	local, err := store.NewStore[*headertest.DummyHeader](ds, store.WithWriteBatchSize(1))
	require.NoError(t, err)
	require.NoError(t, local.Start(ctx))
	// the node holds 1..100 and was offline since
	hs, err := remote.GetRange(ctx, 1, 101)
	require.NoError(t, err)
	require.NoError(t, local.Append(ctx, hs...))
	require.NoError(t, local.Sync(ctx))

	syncer, err := NewSyncer[*headertest.DummyHeader](
		remote, local, headertest.NewDummySubscriber(),
		WithBlockTime(headertest.HeaderTime),
		WithPruningWindow(50*headertest.HeaderTime),
		WithTrustingPeriod(1000*time.Hour),
		WithRecencyThreshold(time.Nanosecond), // the stored head is stale: Head() asks the network
	)
	require.NoError(t, err)
	err = syncer.Start(ctx)
	t.Logf("Start: %v", err)
	require.Error(t, err, "defect present: Start fails when the new tail lies beyond the local head + 1")
	require.Contains(t, err.Error(), "beyond current head+1")
}
