package header

// Harness for C02: VerifyRange returns exactly the verified, height-adjacent prefix of its input.

import (
	"errors"
	"time"

	zz "github.com/celestiaorg/go-header/internal/zzverif"
)

// zzMandatoryOK is the reference statement of the mandatory checks (independent of verify.go).
func zzMandatoryOK(t, u *zzH, now time.Time) bool {
	if t == nil || u == nil {
		return false
	}
	if t.chain != u.chain {
		return false
	}
	if u.height <= t.height {
		return false
	}
	if u.t.Before(t.t) {
		return false
	}
	if u.t.After(now.Add(clockDrift)) {
		return false
	}
	return true
}

// ZzC02 runs VerifyRange on an arbitrary trusted header and an arbitrary sequence of n <= N headers
// (nil entries, aliases of earlier entries and of the trusted header included), with an arbitrary
// type-level verdict per (trusted, untrusted) pair.
func ZzC02() {
	N := zz.Param("N", 3)
	trusted := zzNewHdr("t", 100)
	n := zz.Choice("n", N+1)
	in := make([]*zzH, n)
	for i := 0; i < n; i++ {
		pick := zz.Choice("pick."+itoa(i), i+2)
		switch {
		case pick < i:
			in[i] = in[pick] // alias of an earlier element (duplicate / reordered input)
		case pick == i+1:
			in[i] = trusted
		default:
			in[i] = zzNewHdr("h"+itoa(i), i)
		}
	}
	saved := make([]*zzH, n)
	copy(saved, in)

	// type-level verdict: an arbitrary function of the pair, fixed for the run (memoised draw)
	memo := map[[2]int]int{}
	called := map[[2]int]bool{}
	zzOutcome = func(t, u *zzH) int {
		k := [2]int{t.id, u.id}
		called[k] = true
		if v, ok := memo[k]; ok {
			return v
		}
		v := zz.Choice("out."+itoa(t.id)+"."+itoa(u.id), 4)
		memo[k] = v
		return v
	}

	now := time.Now()
	res, err := VerifyRange(trusted, in)
	zz.Observe("len", uint64(len(res)))
	zz.ObserveBool("err_nil", err == nil)

	for i := 0; i < n; i++ {
		zz.Assert(in[i] == saved[i], "input slice must not be modified")
	}
	zz.Assert(len(res) <= n, "result is never longer than the input")
	if len(res) > n {
		return
	}
	for i := 0; i < len(res); i++ {
		zz.Assert(res[i] == in[i], "result must be a prefix of the input (same headers, same order)")
	}
	if n == 0 {
		zz.Reach("empty-input")
		zz.Assert(err != nil, "empty input must be an error")
		zz.Assert(errors.Is(err, ErrEmptyRange), "empty input: error must wrap ErrEmptyRange")
		return
	}
	zz.Assert((err == nil) == (len(res) == n), "nil error exactly when the whole input is returned")

	// every returned element passed Verify against its predecessor and is height-adjacent from the 2nd on
	pred := trusted
	for i := 0; i < len(res); i++ {
		ok := zzMandatoryOK(pred, in[i], now)
		zz.Assert(ok, "returned header must pass the mandatory checks against its predecessor")
		if !ok {
			return
		}
		k := [2]int{pred.id, in[i].id}
		zz.Assert(called[k] && memo[k] == 0, "returned header must have passed the type-level Verify against its predecessor")
		if i >= 1 {
			zz.Assert(in[i].height == pred.height+1, "returned headers must be height-adjacent from the first element on")
		}
		pred = in[i]
	}
	if len(res) == n {
		zz.Reach("full-range")
		if n >= 2 {
			zz.Reach("full-range-2plus")
		}
		return
	}
	// the first header that is not returned must really fail verification or adjacency
	k := len(res)
	zz.Reach("stopped-early")
	if k >= 1 {
		zz.Reach("stopped-after-some")
	}
	bad := !zzMandatoryOK(pred, in[k], now)
	if !bad {
		key := [2]int{pred.id, in[k].id}
		zz.Assert(called[key], "type-level Verify must have been consulted for the first rejected header")
		if memo[key] != 0 {
			bad = true
		}
	}
	if !bad && k >= 1 && in[k].height != pred.height+1 {
		zz.Reach("non-adjacent")
		bad = true
	}
	zz.Assert(bad, "range cut although the next header verifies and is adjacent")
}

func itoa(i int) string {
	if i < 0 {
		return "-" + itoa(-i)
	}
	if i < 10 {
		return string(rune('0' + i))
	}
	return itoa(i/10) + string(rune('0'+i%10))
}
