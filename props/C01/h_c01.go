package header

// Harness for C01: Verify accepts only headers passing every mandatory and type-level check.
// Executed symbolically by gse (zz.* calls are intrinsics) and natively for replay.

import (
	"errors"
	"fmt"
	"time"

	zz "github.com/celestiaorg/go-header/internal/zzverif"
)

// zzH is the symbolic header type of the root-package harnesses: every observable the generic
// code can query is a free field; Verify returns an outcome chosen by the harness.
type zzH struct {
	chain  string
	height uint64
	t      time.Time
	id     int
}

var (
	zzCalls   int                 // number of type-level Verify calls
	zzCallLog [][2]int            // (trusted id, untrusted id) of each call
	zzOutcome func(t, u *zzH) int // outcome selector, set by the harness
	zzLastErr error               // what the last type-level Verify returned
	zzLastVE  *VerifyError        // the *VerifyError inside it, if any
	zzPlain   = errors.New("plain type-level error")
	zzInner   = errors.New("inner reason")
)

func (h *zzH) New() *zzH                      { return new(zzH) }
func (h *zzH) IsZero() bool                   { return h == nil }
func (h *zzH) ChainID() string                { return h.chain }
func (h *zzH) Hash() Hash                     { return Hash{byte(h.id)} }
func (h *zzH) Height() uint64                 { return h.height }
func (h *zzH) LastHeader() Hash               { return nil }
func (h *zzH) Time() time.Time                { return h.t }
func (h *zzH) Validate() error                { return nil }
func (h *zzH) MarshalBinary() ([]byte, error) { return nil, nil }
func (h *zzH) UnmarshalBinary([]byte) error   { return nil }

// Verify is the type-level check. Outcome catalogue (the shapes an implementation can produce):
// 0 nil, 1 plain error, 2 bare soft *VerifyError, 3 bare hard *VerifyError,
// 4 fmt.Errorf-wrapped soft, 5 fmt.Errorf-wrapped hard.
func (h *zzH) Verify(u *zzH) error {
	zzCalls++
	zzCallLog = append(zzCallLog, [2]int{h.id, u.id})
	zzLastVE = nil
	switch zzOutcome(h, u) {
	case 0:
		zzLastErr = nil
	case 1:
		zzLastErr = zzPlain
	case 2:
		zzLastVE = &VerifyError{Reason: zzInner, SoftFailure: true}
		zzLastErr = zzLastVE
	case 3:
		zzLastVE = &VerifyError{Reason: zzInner}
		zzLastErr = zzLastVE
	case 4:
		zzLastVE = &VerifyError{Reason: zzInner, SoftFailure: true}
		zzLastErr = fmt.Errorf("wrapped: %w", zzLastVE)
	default:
		zzLastVE = &VerifyError{Reason: zzInner}
		zzLastErr = fmt.Errorf("wrapped: %w", zzLastVE)
	}
	return zzLastErr
}

func zzNewHdr(name string, id int) *zzH {
	if zz.Bool(name + ".nil") {
		return nil
	}
	return &zzH{chain: zz.StrN(name+".chain", zz.Param("CHAINLEN", 52)), height: zz.U64(name + ".height"), t: zz.Time(name + ".time"), id: id}
}

// ZzC01 checks one call of Verify for every pair of headers, every instant and every type-level outcome.
func ZzC01() {
	t := zzNewHdr("t", 1)
	u := zzNewHdr("u", 2)
	out := zz.Choice("outcome", 6)
	zzOutcome = func(_, _ *zzH) int { return out }
	typeSoft := out == 2 || out == 4

	now := time.Now() // the clock does not move during one call (stated bound)
	err := Verify(t, u)
	zz.ObserveBool("err_nil", err == nil)

	if t == nil || u == nil {
		zz.Reach("zero")
		ve, ok := err.(*VerifyError)
		zz.Assert(ok, "zero header: result must be *VerifyError")
		if ok {
			zz.Assert(!ve.SoftFailure, "zero header: must be a hard failure")
			zz.Assert(errors.Is(err, ErrZeroHeader), "zero header: must wrap ErrZeroHeader")
		}
		zz.Assert(zzCalls == 0, "zero header: type-level Verify must not run")
		return
	}
	badChain := t.chain != u.chain
	known := u.height <= t.height
	unordered := u.t.Before(t.t)
	future := u.t.After(now.Add(clockDrift))
	if badChain || known || unordered || future {
		zz.Reach("mandatory-failure")
		if badChain {
			zz.Reach("bad-chain")
		}
		if known {
			zz.Reach("known")
		}
		if unordered {
			zz.Reach("unordered")
		}
		if future {
			zz.Reach("future")
		}
		ve, ok := err.(*VerifyError)
		zz.Assert(ok, "mandatory failure: result must be *VerifyError")
		if !ok {
			return
		}
		zz.Assert(!ve.SoftFailure, "mandatory failure: must be hard")
		match := false
		if badChain && errors.Is(err, ErrWrongChainID) {
			match = true
		}
		if known && errors.Is(err, ErrKnownHeader) {
			match = true
		}
		if unordered && errors.Is(err, ErrUnorderedTime) {
			match = true
		}
		if future && errors.Is(err, ErrFromFuture) {
			match = true
		}
		zz.Assert(match, "mandatory failure: sentinel must belong to a failing condition")
		zz.Assert(zzCalls == 0, "mandatory failure: type-level Verify must not run")
		return
	}
	adjacent := u.height == t.height+1
	zz.Assert(zzCalls == 1, "type-level Verify runs exactly once")
	if out == 0 {
		zz.Reach("accept")
		zz.Assert(err == nil, "all checks pass: must return nil")
		return
	}
	ve, ok := err.(*VerifyError)
	zz.Assert(ok, "type-level failure: result must be *VerifyError")
	if !ok {
		return
	}
	if adjacent {
		zz.Reach("type-fail-adjacent")
	} else {
		zz.Reach("type-fail-nonadjacent")
	}
	zz.ObserveBool("soft", ve.SoftFailure)
	zz.Assert(ve.SoftFailure == (typeSoft || !adjacent), "soft exactly when the type said soft or the header is non-adjacent")
	if out == 1 {
		zz.Assert(ve.Reason == zzLastErr, "plain type-level error must be wrapped as Reason")
	} else {
		zz.Assert(ve == zzLastVE, "the type's own *VerifyError must be the result")
	}
	zz.Assert(!errors.Is(err, ErrZeroHeader) && !errors.Is(err, ErrWrongChainID) && !errors.Is(err, ErrKnownHeader) &&
		!errors.Is(err, ErrUnorderedTime) && !errors.Is(err, ErrFromFuture), "type-level failure must not carry a mandatory sentinel")
}
