package p2p

// Harness for C10: ExchangeServer answers any request with bounded work and only true store data.

import (
	"context"
	"errors"

	header "github.com/celestiaorg/go-header"
	zh "github.com/celestiaorg/go-header/internal/zzhdr"
	zz "github.com/celestiaorg/go-header/internal/zzverif"
)

// zzContractStore is the header.Store contract as the server sees it: a chain tail..head (or empty),
// every read is logged. GetRange answers with a sentinel slice: the oracle checks the arguments of the
// read and that the server hands back exactly what the store returned.
type zzContractStore struct {
	header.Store[*zh.Hdr]
	empty      bool
	tail, head uint64
	headHdr    *zh.Hdr
	byHash     *zh.Hdr
	hashErr    error
	rangeCalls [][2]uint64
	rangeRes   []*zh.Hdr
	rangeErr   error
	getCalls   int
	headCalls  int
}

func (s *zzContractStore) Head(context.Context, ...header.HeadOption[*zh.Hdr]) (*zh.Hdr, error) {
	s.headCalls++
	if s.empty {
		return nil, header.ErrEmptyStore
	}
	return s.headHdr, nil
}

func (s *zzContractStore) HasAt(_ context.Context, h uint64) bool {
	return !s.empty && h != 0 && h >= s.tail && h <= s.head
}

func (s *zzContractStore) GetRange(_ context.Context, from, to uint64) ([]*zh.Hdr, error) {
	s.rangeCalls = append(s.rangeCalls, [2]uint64{from, to})
	if s.empty || from >= to || from < s.tail || to-1 > s.head {
		return nil, header.ErrNotFound
	}
	if s.rangeErr != nil {
		return nil, s.rangeErr
	}
	return s.rangeRes, nil
}

func (s *zzContractStore) Get(_ context.Context, hash header.Hash) (*zh.Hdr, error) {
	s.getCalls++
	if s.hashErr != nil {
		return nil, s.hashErr
	}
	return s.byHash, nil
}

var zzErrStore = errors.New("zz: store failure")

func zzServer(st *zzContractStore) *ExchangeServer[*zh.Hdr] {
	return &ExchangeServer[*zh.Hdr]{store: st, Params: DefaultServerParameters(), ctx: context.Background()}
}

func zzStore() *zzContractStore {
	st := &zzContractStore{}
	st.empty = zz.Bool("store.empty")
	if !st.empty {
		st.tail = zz.U64("store.tail")
		st.head = zz.U64("store.head")
		zz.Assume(st.tail >= 1 && st.tail <= st.head)
		st.headHdr = &zh.Hdr{H: st.head, ID: 7}
	}
	st.rangeRes = []*zh.Hdr{{ID: 42}}
	switch zz.Choice("store.rangeErr", 3) {
	case 1:
		st.rangeErr = zzErrStore
	case 2:
		st.rangeErr = context.DeadlineExceeded
	}
	return st
}

// ZzC10Range: one range/head request (origin, amount) against an arbitrary store.
func ZzC10Range() {
	st := zzStore()
	serv := zzServer(st)
	origin := zz.U64("origin")
	amount := zz.U64("amount")
	// exactly what requestHandler computes for a HeaderRequest_Origin
	res, err := serv.handleRangeRequest(context.Background(), origin, origin+amount)
	zz.ObserveBool("err_nil", err == nil)
	zz.Observe("range_calls", uint64(len(st.rangeCalls)))

	zz.Assert(len(st.rangeCalls) <= 1, "at most one range read per request")
	for _, c := range st.rangeCalls {
		zz.Reach("range-read")
		zz.Assert(c[0] == origin, "range read must start at the requested origin")
		zz.Assert(c[1] > c[0] && c[1]-c[0] <= amount, "range read must not exceed the requested amount")
		zz.Assert(c[1]-c[0] <= header.MaxRangeRequestSize, "range read must not exceed MaxRangeRequestSize headers")
		if c[1] != origin+amount {
			zz.Reach("clamped")
			zz.Assert(!st.empty && c[1] == st.head+1 && origin+amount-1 > st.head, "shorter read only when the range extends past the store head")
		}
	}
	if amount > header.MaxRangeRequestSize && origin != 0 {
		zz.Reach("too-large")
		zz.Assert(err != nil, "more than MaxRangeRequestSize headers must be refused")
		zz.Assert(len(st.rangeCalls) == 0, "an oversized request must not read the store")
	}
	if err != nil {
		zz.Reach("error")
		zz.Assert(len(res) == 0, "no headers on error")
		return
	}
	if origin == 0 {
		zz.Reach("head-request")
		zz.Assert(len(res) == 1 && res[0] == st.headHdr, "head request returns exactly the store head")
		zz.Assert(len(st.rangeCalls) == 0, "head request reads no range")
		return
	}
	zz.Reach("ok")
	zz.Assert(len(st.rangeCalls) == 1 && len(res) == 1 && res[0] == st.rangeRes[0], "OK answer is exactly what the store returned for the read range")
	// status mapping of requestHandler: nil -> OK; ErrNotFound -> NOT_FOUND; else reset
}

// ZzC10Hash: request by hash.
func ZzC10Hash() {
	st := &zzContractStore{byHash: &zh.Hdr{ID: 9}}
	switch zz.Choice("store.hashErr", 3) {
	case 1:
		st.hashErr = header.ErrNotFound
	case 2:
		st.hashErr = zzErrStore
	}
	serv := zzServer(st)
	// the hash bytes are only passed through to the store (and hex-formatted for logging): concrete catalogue
	hashes := [][]byte{nil, {}, {0x00}, {0xA0, 0x00, 0x09}, {0xff, 0xff, 0xff, 0xff, 0xff, 0xff, 0xff, 0xff, 0xff}}
	hash := hashes[zz.Choice("hash.pick", len(hashes))]
	res, err := serv.handleRequestByHash(context.Background(), hash)
	zz.Assert(st.getCalls == 1, "exactly one store lookup")
	if st.hashErr != nil {
		zz.Reach("hash-error")
		zz.Assert(err == st.hashErr && len(res) == 0, "store error is passed on, no header")
		return
	}
	zz.Reach("hash-ok")
	zz.Assert(err == nil && len(res) == 1 && res[0] == st.byHash, "the header with that hash is returned")
}
