package p2p

// C10, wire unit: requestHandler over a scripted stream - the real serde framing, the generated
// protobuf decoder/encoder, the request dispatch and the status mapping are all executed.

import (
	"bytes"
	"context"
	"io"
	"time"

	"github.com/libp2p/go-libp2p/core/network"

	"github.com/celestiaorg/go-libp2p-messenger/serde"

	header "github.com/celestiaorg/go-header"
	zh "github.com/celestiaorg/go-header/internal/zzhdr"
	zz "github.com/celestiaorg/go-header/internal/zzverif"
	p2p_pb "github.com/celestiaorg/go-header/p2p/pb"
)

type zzStream struct {
	network.Stream
	in     []byte
	pos    int
	out    []byte
	reset  bool
	closed bool
	// a peer may stop reading at any time: only a write deadline bounds a Write then
	wdl             time.Time
	unboundedWrites int
}

func (s *zzStream) Read(p []byte) (int, error) {
	if s.pos >= len(s.in) {
		return 0, io.EOF
	}
	n := copy(p, s.in[s.pos:])
	s.pos += n
	return n, nil
}
func (s *zzStream) Write(p []byte) (int, error) {
	if s.wdl.IsZero() || !s.wdl.After(time.Now()) {
		s.unboundedWrites++
	}
	s.out = append(s.out, p...)
	return len(p), nil
}
func (s *zzStream) CloseRead() error            { return nil }
func (s *zzStream) CloseWrite() error           { return nil }
func (s *zzStream) Close() error                { s.closed = true; return nil }
func (s *zzStream) Reset() error                { s.reset = true; return nil }

// deadlines: the read deadline is environment (the whole request is there at once); the write deadline is recorded
func (s *zzStream) SetReadDeadline(time.Time) error    { return nil }
func (s *zzStream) SetWriteDeadline(t time.Time) error { s.wdl = t; return nil }
func (s *zzStream) SetDeadline(t time.Time) error      { s.wdl = t; return nil }

// zzWireStore: the canonical chain tail..head with logging of the reads.
type zzWireStore struct {
	header.Store[*zh.Hdr]
	chain      []*zh.Hdr // chain[i].H = i+1
	tail, head int
	rangeCalls [][2]uint64
	getCalls   [][]byte
	noDeadline int
}

// every store access of a request must run under the request's timeout (the server "never hangs beyond its timeouts")
func (s *zzWireStore) see(ctx context.Context) {
	if _, ok := ctx.Deadline(); !ok {
		s.noDeadline++
	}
}

func (s *zzWireStore) Head(ctx context.Context, _ ...header.HeadOption[*zh.Hdr]) (*zh.Hdr, error) {
	s.see(ctx)
	return s.chain[s.head-1], nil
}
func (s *zzWireStore) HasAt(ctx context.Context, h uint64) bool {
	s.see(ctx)
	return int(h) >= s.tail && int(h) <= s.head
}
func (s *zzWireStore) GetRange(ctx context.Context, from, to uint64) ([]*zh.Hdr, error) {
	s.see(ctx)
	s.rangeCalls = append(s.rangeCalls, [2]uint64{from, to})
	if from >= to || int(from) < s.tail || int(to-1) > s.head {
		return nil, header.ErrNotFound
	}
	return s.chain[from-1 : to-1], nil
}
func (s *zzWireStore) Get(ctx context.Context, hash header.Hash) (*zh.Hdr, error) {
	s.see(ctx)
	s.getCalls = append(s.getCalls, hash)
	for i := s.tail; i <= s.head; i++ {
		if bytes.Equal(s.chain[i-1].Hash(), hash) {
			return s.chain[i-1], nil
		}
	}
	return nil, header.ErrNotFound
}

func zzFrame(req *p2p_pb.HeaderRequest) []byte {
	buf := make([]byte, req.Size()+10)
	n, err := serde.Marshal(req, buf)
	zz.Assert(err == nil, "request marshals")
	return buf[:n]
}

// ZzC10Wire sends one request (catalogue of well-formed and malformed frames) through requestHandler.
func ZzC10Wire() {
	const N = 6
	chain := make([]*zh.Hdr, N)
	for i := range chain {
		chain[i] = &zh.Hdr{Chain: "c", H: uint64(i + 1), ID: i + 1, Prev: i}
	}
	st := &zzWireStore{chain: chain, tail: 2, head: 5}
	serv := &ExchangeServer[*zh.Hdr]{store: st, Params: DefaultServerParameters(), ctx: context.Background()}

	var in []byte
	var wantHash []byte
	kind := zz.Choice("kind", 5)
	var origin, amount uint64
	switch kind {
	case 0: // by hash
		hashes := [][]byte{{}, chain[2].Hash(), chain[0].Hash() /* pruned */, {0xde, 0xad}}
		wantHash = hashes[zz.Choice("hash", len(hashes))]
		amounts := []uint64{0, 1, 2, 65}
		amount = amounts[zz.Choice("amount", len(amounts))]
		in = zzFrame(&p2p_pb.HeaderRequest{Data: &p2p_pb.HeaderRequest_Hash{Hash: wantHash}, Amount: amount})
	case 1: // by origin
		origins := []uint64{0, 1, 2, 4, 5, 6, 1<<64 - 1}
		amounts := []uint64{0, 1, 2, 64, 65, 1<<64 - 1}
		origin, amount = origins[zz.Choice("origin", len(origins))], amounts[zz.Choice("amount", len(amounts))]
		in = zzFrame(&p2p_pb.HeaderRequest{Data: &p2p_pb.HeaderRequest_Origin{Origin: origin}, Amount: amount})
	case 2: // no data at all
		in = zzFrame(&p2p_pb.HeaderRequest{Amount: 1})
	case 3: // truncated frame
		full := zzFrame(&p2p_pb.HeaderRequest{Data: &p2p_pb.HeaderRequest_Origin{Origin: 3}, Amount: 2})
		in = full[:1+zz.Choice("cut", len(full)-1)]
	default: // garbage
		garbage := [][]byte{{}, {0x00}, {0x03, 0xff, 0xff, 0xff}, {0x02, 0x0a, 0x7f}, {0xff, 0xff, 0xff, 0xff, 0xff, 0xff, 0xff, 0xff, 0xff, 0x7f}}
		in = garbage[zz.Choice("garbage", len(garbage))]
	}
	stream := &zzStream{in: in}
	serv.requestHandler(stream) // a panic here is reported by the engine

	// decode what was written
	var resps []*p2p_pb.HeaderResponse
	out := stream.out
	for len(out) > 0 {
		r := new(p2p_pb.HeaderResponse)
		n, err := serde.Unmarshal(r, out)
		zz.Assert(err == nil && n > 0, "responses are well-formed frames")
		if err != nil || n <= 0 {
			break
		}
		resps = append(resps, r)
		out = out[n:]
	}
	zz.Observe("responses", uint64(len(resps)))
	zz.ObserveBool("reset", stream.reset)
	zz.Assert(st.noDeadline == 0, "every store access of a request runs under the request timeout")
	zz.Assert(stream.unboundedWrites == 0, "every write of a response is bounded by a write deadline (a peer that stops reading must not pin the handler)")
	zz.Assert(len(st.rangeCalls) <= 1, "at most one range read per request")
	for _, c := range st.rangeCalls {
		zz.Assert(c[1]-c[0] <= header.MaxRangeRequestSize && c[1] > c[0], "never more than MaxRangeRequestSize headers are read")
	}
	if stream.reset {
		zz.Reach("reset")
		zz.Assert(len(resps) == 0, "a reset stream carries no response")
		// a head request is an origin request with origin 0: its amount is irrelevant and never limited
		// (amount 0 is an empty range, origin 0 or not: refused as malformed before the head dispatch)
		zz.Assert(!(kind == 1 && origin == 0 && amount >= 1), "a head request (origin 0) is answered with the store's head whatever its amount")
		return
	}
	zz.Assert(len(resps) > 0, "an answered request carries at least one response")
	if len(resps) == 0 {
		return
	}
	if resps[0].StatusCode == p2p_pb.StatusCode_NOT_FOUND {
		zz.Reach("not-found")
		zz.Assert(len(resps) == 1 && len(resps[0].Body) == 0, "NOT_FOUND is a single response without a body")
		return
	}
	zz.Reach("ok")
	var hs []*zh.Hdr
	for _, r := range resps {
		zz.Assert(r.StatusCode == p2p_pb.StatusCode_OK, "all responses of an answer are OK")
		h := new(zh.Hdr)
		zz.Assert(h.UnmarshalBinary(r.Body) == nil, "an OK response carries a decodable header")
		hs = append(hs, h)
	}
	switch {
	case kind == 0:
		zz.Reach("ok-by-hash")
		zz.Assert(len(hs) == 1 && bytes.Equal(hs[0].Hash(), wantHash), "a hash request is answered with the header of that hash")
	case kind == 1 && origin == 0:
		zz.Reach("ok-head")
		zz.Assert(len(hs) == 1 && hs[0].H == uint64(st.head), "a head request (origin 0) is answered with the store's head")
	case kind == 1:
		zz.Reach("ok-range")
		zz.Assert(uint64(len(hs)) <= amount, "never more headers than requested")
		for i, h := range hs {
			zz.Assert(h.H == origin+uint64(i) && h.ID == int(h.H), "OK responses are exactly the store's headers at origin, origin+1, ...")
		}
		if uint64(len(hs)) < amount {
			zz.Assert(origin+amount-1 > uint64(st.head) && hs[len(hs)-1].H == uint64(st.head), "a shorter prefix only when the range extends past the store's head")
		}
	default:
		zz.Assert(false, "a request without origin or hash, a truncated or a garbage frame must not be answered with data")
	}
}
