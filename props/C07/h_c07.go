package sync

// Harness for C07: with an honest getter the Syncer reaches every verified target; errors delay it.

import (
	"context"

	zz "github.com/celestiaorg/go-header/internal/zzverif"
)

// ZzC07: valid heads arrive (adjacent, skipping, in bursts while a sync is running); the getter serves
// the ranges (possibly as shorter prefixes) and fails a bounded number of times.
func ZzC07() {
	ctx := context.Background()
	K := zz.Param("K", 6)
	G := zz.Param("G", 2)
	env := zzNewSyncEnv(ctx, K, 1, zz.Param("ERRS", 1), true)
	top := uint64(1) // highest verified head learned so far
	last := 0
	for n := 0; n < G; n++ {
		zz.Gate("main:deliver")
		if zz.Param("STALE", 0) == 1 && zz.Bool("op.head") {
			// the head is (also) learned through Head(), concurrently with gossip and the sync loop
			go func() {
				// whether this call learns a new head is decided where the head is handed out (the Head getter
				// of the environment clears errSinceHead when it returns a head above everything accepted so far)
				_, _ = env.s.Head(ctx)
			}()
			zz.Reach("head-call")
			continue
		}
		// a valid head above what was delivered so far
		idx := last + 1 + zz.Choice("head.skip", K-last-1)
		if idx >= K {
			break
		}
		last = idx
		h := env.chain[idx]
		err := env.deliver(ctx, h)
		if err == nil {
			zz.Reach("head-accepted")
			if h.H > top {
				top = h.H
			}
		} else {
			// a valid head can only be refused through a failed bifurcation (getter error)
			zz.Reach("head-refused")
			sbj, _ := env.s.localHead(ctx)
			known := sbj != nil && sbj.H >= h.H // already learned (through Head()) in the meantime
			zz.Assert(env.errSinceHead || known, "a valid network head is refused only when the getter failed during bifurcation")
		}
	}
	zz.Quiesce()
	env.checkStore()
	if env.netTop > top {
		top = env.netTop
	}
	st := env.s.State()
	storeHead, _ := env.st.Head(ctx)
	zz.Observe("store_head", storeHead.H)
	if !env.errSinceHead {
		zz.Reach("synced")
		zz.Assert(storeHead.H == top, "the Store's head reaches the newest verified head")
		zz.Assert(st.Finished(), "State() reports the sync finished")
		zz.Assert(st.Error == "", "State() reports no error after a completed sync")
		zz.Assert(env.s.SyncWait(ctx) == nil, "SyncWait returns")
		for _, r := range env.s.pending.ranges {
			zz.Assert(len(r.headers) == 0, "nothing is left pending once synced")
		}
	} else {
		zz.Reach("errored")
		// a getter error only aborts the current attempt: nothing partial is lost
		// (verified intermediates promoted by a bifurcation may sit above the last accepted head)
		zz.Assert(storeHead.H >= 1, "nothing partial is lost")
		if storeHead.H < top {
			zz.Assert(st.Error != "", "State() reports the getter error of the aborted attempt")
		}
	}
}
