package store

// Harness for C12: GetByHeight waits for a future height and wakes once that header is stored.

import (
	"context"
	"errors"

	header "github.com/celestiaorg/go-header"
	zh "github.com/celestiaorg/go-header/internal/zzhdr"
	zz "github.com/celestiaorg/go-header/internal/zzverif"
)

type zzReader struct {
	target    uint64
	done      bool
	got       *zh.Hdr
	err       error
	cancel    context.CancelFunc
	cancelled bool
}

// ZzC12 interleaves R readers waiting for future heights with appends (contiguous, gapped, out of
// order) and cancellations. Scheduling points: every datastore operation (gates) plus the writer's
// own gates; between two gates a thread runs until it blocks.
func ZzC12() {
	ctx := context.Background()
	R := zz.Param("R", 1)
	// batch 1: every append is flushed at once and the write batch is emptied again;
	// batch 64: appended headers stay in the write batch
	cfgIdx := []int{4, 6, 5, 2} // large caches (see zzCfgsQuick); 6: flush per header over snapshot read transactions
	cfg := zzCfgsQuick[cfgIdx[zz.Choice("cfg", zz.Param("CFGS", 2))]]
	d := zzNewMemDS()
	s := zzOpen(d, cfg)
	chain := zzChain(cfg.base, 6)
	zz.Assert(s.Append(ctx, chain[:3]...) == nil, "Append ok")
	zz.Assert(s.Sync(ctx) == nil, "Sync ok")
	d.gates = true
	d.gatesAfter = zz.Param("POSTGATES", 0) == 1

	// what the writer will append: one or two batches out of chain[3..5]
	// each batch is a list of chain indexes handed to one Append call
	plans := [][][]int{
		{{3}},         // contiguous
		{{4}},         // gapped: index 3 is never appended
		{{5}, {3, 4}}, // out of order: gap filled later
		{{3, 4, 5}},   // one batch
		{{4, 5}},      // gapped batch
		{{3, 5}},      // one batch that advances the head AND carries a detached header
		{{3, 4}, {5}}, // two contiguous batches
	}
	plan := plans[zz.Choice("plan", len(plans))]
	appended := map[int]bool{}

	readers := make([]*zzReader, R)
	for r := range readers {
		rd := &zzReader{target: chain[3+zz.Choice("target", 3)].H}
		rctx, cancel := context.WithCancel(zzTagged(ctx, "r"+zzItoa(r)))
		rd.cancel = cancel
		readers[r] = rd
		go func() {
			rd.got, rd.err = s.GetByHeight(rctx, rd.target)
			rd.done = true
		}()
	}
	for _, batch := range plan {
		zz.Gate("writer:append") // lets the readers reach their next datastore access first (or not)
		hs := make([]*zh.Hdr, len(batch))
		for n, k := range batch {
			hs[n] = chain[k]
			appended[k] = true
		}
		zz.Assert(s.Append(ctx, hs...) == nil, "Append ok")
	}
	zz.Gate("writer:sync")
	zz.Assert(s.Sync(ctx) == nil, "Sync ok")
	zz.Quiesce()

	for _, rd := range readers {
		idx := int(rd.target - cfg.base)
		if appended[idx] {
			zz.Reach("target-stored")
			if !rd.done {
				zz.Reach("reader-parked-although-stored")
			}
			zz.Assert(rd.done, "reader must be woken once the awaited header is stored")
			if rd.done {
				zz.Assert(rd.err == nil && rd.got != nil && rd.got.H == rd.target, "reader gets the header of the requested height")
			}
		} else {
			zz.Reach("target-not-stored")
			zz.Assert(!rd.done || rd.err != nil, "a height that was never appended cannot be returned")
			if s.Height() >= rd.target {
				zz.Reach("elapsed-not-stored")
				zz.Assert(rd.done && errors.Is(rd.err, header.ErrNotFound), "a height at or below Height that is not stored yields ErrNotFound promptly")
			}
		}
	}
	// cancellation releases exactly the cancelled callers; the others keep waiting for their height
	anyCancel := false
	for r, rd := range readers {
		if zz.Bool("cancel." + zzItoa(r)) {
			rd.cancelled = true
			anyCancel = true
			rd.cancel()
		}
	}
	if anyCancel {
		zz.Quiesce()
		zz.Reach("cancelled")
	}
	for _, rd := range readers {
		idx := int(rd.target - cfg.base)
		if rd.cancelled {
			zz.Assert(rd.done, "a cancelled context releases the caller")
		} else if !appended[idx] && rd.target > s.Height() {
			zz.Reach("still-waiting")
			zz.Assert(!rd.done, "a caller waiting for a height above Height stays blocked until the header is appended or its own context ends")
		}
	}
	d.gates = false
	for _, rd := range readers {
		rd.cancel()
	}
	zz.Quiesce()
	zz.Assert(s.Stop(ctx) == nil, "Stop ok")
}
