package store

// Harness for C08: DeleteRange removes exactly the requested end of the chain, permanently.

import (
	"context"

	zh "github.com/celestiaorg/go-header/internal/zzhdr"
	zz "github.com/celestiaorg/go-header/internal/zzverif"
)

// ZzC08 deletes one catalogue range from a store with an arbitrary flushed/pending split, then
// continues with appends, a flush and a restart.
func ZzC08() {
	ctx := context.Background()
	sc := zzBuildDelScenario(ctx)
	s := sc.s
	unsynced := zz.Param("UNSYNCED", 0) == 1 && zz.Bool("append.unsynced")
	if unsynced {
		// the next header is appended right before the deletion and is still queued for the writer when
		// DeleteRange is called: the range has to be judged against the chain that includes it
		zz.Assert(s.Append(ctx, sc.chain[sc.K]) == nil, "Append ok")
		sc.K++
		sc.headH = sc.chain[sc.K-1].H
		zz.Reach("append-unsynced")
	}
	K := sc.K
	anyPending := false
	for i := 0; i < K; i++ {
		if sc.inRange(i) && sc.pendingAt(i) {
			anyPending = true
		}
	}
	whole := sc.from == sc.tailH && sc.to == sc.headH+1

	if !unsynced && sc.valid() && sc.from == sc.tailH && !whole && zz.Bool("append.during") {
		// the chain keeps growing at the head while the tail is pruned: the next header is appended (and the
		// write queue drained) in the middle of the deletion, right before one chosen height is removed.
		// With a small write batch this flushes whatever still sits in the batch at that moment.
		at := sc.from + uint64(zz.Choice("append.at", int(sc.to-sc.from)))
		done := false
		main := s
		s.OnDelete(func(hctx context.Context, h uint64) error {
			if h == at && !done {
				done = true
				zz.Assert(main.Append(hctx, sc.chain[K]) == nil, "Append ok")
				zz.Assert(main.Sync(hctx) == nil, "Sync ok")
				zz.Reach("append-during-delete")
			}
			return nil
		})
	}
	faulted := false
	if !unsynced && zz.Param("FAULTS", 0) == 1 && sc.valid() && sc.from == sc.tailH && !whole && zz.Bool("fault.during") {
		// one datastore write of the deletion fails (transient fault); the caller retries from the new tail
		sc.d.failFrom = sc.d.writes + 1 + zz.Choice("fault.at", 2*int(sc.to-sc.from)+1)
		sc.d.failN = 1
		faulted = true
	}
	err := s.DeleteRange(zzTagged(ctx, "del"), sc.from, sc.to)
	zz.ObserveBool("err_nil", err == nil)
	if faulted && err != nil {
		zz.Reach("failed-part-way")
		head, e1 := s.Head(ctx)
		tail, e2 := s.Tail(ctx)
		zz.Assert(e1 == nil && e2 == nil && tail.H <= head.H, "after a deletion that failed part-way Tail and Head still exist with Tail <= Head")
		for i := 0; i < K; i++ {
			if !sc.inRange(i) {
				bh, bx, has := zzReadable(ctx, s, sc.chain[i])
				zz.Assert(bh && bx && has, "a deletion that failed part-way leaves the headers outside the range untouched")
			}
		}
		if e2 != nil {
			return
		}
		// retrying the tail-side deletion from wherever the tail is now completes it
		if tail.H < sc.to {
			err = s.DeleteRange(ctx, tail.H, sc.to)
			zz.Reach("retried")
			zz.Assert(err == nil, "retrying a tail-side deletion completes it")
		}
		// (when only the rewrite of the tail pointer failed there is nothing left to retry)
		// known finding: on the context-aware datastore the deletes of the whole range are one batch; when the
		// commit of that batch fails the tail is moved past the range all the same
		if zz.Known("C08-failed-batch-commit-moves-tail", sc.cfg.flavour == 1 && sc.d.failedTaggedCommit == "del") {
			zz.Reach("failed-batch-commit")
		}
		for i := 0; i < K; i++ {
			bh, bx, has := zzReadable(ctx, s, sc.chain[i])
			if sc.inRange(i) {
				zz.Assert(!bh, "deleted header still retrievable by height (after the retry)")
				zz.Assert(!bx && !has, "deleted header still retrievable by hash (after the retry)")
			} else {
				zz.Assert(bh && bx && has, "header outside the deleted range must be untouched (after the retry)")
			}
		}
		// what a reopened store makes of a failed pointer write is C06's subject: stop here
		return
	}

	if !sc.valid() {
		zz.Reach("rejected")
		zz.Assert(err != nil, "a range that is neither a prefix from Tail, a suffix to Head+1 nor the whole chain must be rejected")
		for i := 0; i < K; i++ {
			bh, bx, has := zzReadable(ctx, s, sc.chain[i])
			zz.Assert(bh && bx && has, "a rejected DeleteRange has no effect")
		}
		head, e1 := s.Head(ctx)
		tail, e2 := s.Tail(ctx)
		zz.Assert(e1 == nil && e2 == nil && head.H == sc.headH && tail.H == sc.tailH, "a rejected DeleteRange leaves Head and Tail alone")
		return
	}
	zz.Reach("accepted")
	zz.Assert(err == nil, "a prefix, suffix or whole-chain deletion without faults succeeds")
	if err != nil {
		return
	}
	if anyPending {
		zz.Reach("range-has-pending") // fixed defect (KNOWN_FINDINGS.txt): pending headers survived the deletion
	}
	if whole {
		zz.Reach("whole-chain") // fixed defect (KNOWN_FINDINGS.txt): wipe removed only the pointers
	}
	check := func(stage string) {
		for i := 0; i < K; i++ {
			bh, bx, has := zzReadable(ctx, s, sc.chain[i])
			if sc.inRange(i) {
				zz.Assert(!bh, "deleted header still retrievable by height ("+stage+")")
				zz.Assert(!bx && !has, "deleted header still retrievable by hash ("+stage+")")
			} else {
				zz.Assert(bh && bx && has, "header outside the deleted range must be untouched ("+stage+")")
			}
		}
		head, e1 := s.Head(ctx)
		tail, e2 := s.Tail(ctx)
		if whole {
			zz.Assert(e1 != nil && e2 != nil, "whole chain deleted: no Head, no Tail ("+stage+")")
			return
		}
		zz.Assert(e1 == nil && e2 == nil, "Head and Tail describe the remaining chain ("+stage+")")
		if e1 != nil || e2 != nil {
			return
		}
		wantTail, wantHead := sc.tailH, sc.headH
		if sc.from == sc.tailH {
			wantTail = sc.to
		} else {
			wantHead = sc.from - 1
		}
		zz.Assert(tail.H == wantTail && head.H >= wantHead, "Head and Tail describe the remaining chain ("+stage+")")
	}
	check("immediately")
	if zz.Bool("restart.after") {
		// a restart before anything else is flushed: the pointers written by the deletion itself must be right
		zz.Assert(s.Stop(ctx) == nil, "Stop ok")
		s = zzOpen(sc.d, sc.cfg)
		zz.Reach("restart-after-delete")
		check("after an immediate restart")
	}
	// continuation: later appends and flushes must not bring deleted headers back
	if sc.to == sc.headH+1 && !whole {
		// head-side: the chain continues from the new head with fresh headers of the deleted heights? no:
		// the deleted heights stay deleted; append the next unseen height (leaves a gap, which is legal)
		zz.Assert(s.Append(ctx, sc.chain[K]) == nil, "Append ok")
	} else if !whole {
		zz.Assert(s.Append(ctx, sc.chain[K], sc.chain[K+1]) == nil, "Append ok")
	}
	zz.Assert(s.Sync(ctx) == nil, "Sync ok")
	check("after later appends")
	zz.Assert(s.Stop(ctx) == nil, "Stop ok")
	s = zzOpen(sc.d, sc.cfg)
	check("after restart")
	for i := 0; i < K; i++ {
		if sc.inRange(i) {
			a, b := zzOnDisk(ctx, s, sc.chain[i])
			zz.Assert(!a && !b, "deleted header still present in the datastore after restart")
		}
	}
	zz.Assert(s.Stop(ctx) == nil, "Stop ok")
}

// ZzC08Reject: unconstrained 64-bit (from,to) against a synced store; every pair that is not one of
// the three permitted shapes must be rejected without effect.
func ZzC08Reject() {
	ctx := context.Background()
	K := zz.Param("K", 4)
	cfg := zzCfgsQuick[zz.Choice("cfg", 2)]
	d := zzNewMemDS()
	s := zzOpen(d, cfg)
	chain := zzChain(cfg.base, K)
	zz.Assert(s.Append(ctx, chain...) == nil, "Append ok")
	zz.Assert(s.Sync(ctx) == nil, "Sync ok")
	tailH, headH := chain[0].H, chain[K-1].H
	from, to := zz.U64("from"), zz.U64("to")
	prefix := from == tailH && to <= headH+1
	suffix := to == headH+1 && from >= tailH
	zz.Assume(!(from < to && (prefix || suffix)))
	nlog := len(d.log)
	err := s.DeleteRange(ctx, from, to)
	zz.Reach("rejected")
	zz.Assert(err != nil, "a range that is neither a prefix from Tail, a suffix to Head+1 nor the whole chain must be rejected")
	zz.Assert(len(d.log) == nlog, "a rejected DeleteRange writes nothing")
	head, e1 := s.Head(ctx)
	tail, e2 := s.Tail(ctx)
	zz.Assert(e1 == nil && e2 == nil && head.H == headH && tail.H == tailH, "a rejected DeleteRange leaves Head and Tail alone")
	for i := 0; i < K; i++ {
		bh, bx, has := zzReadable(ctx, s, chain[i])
		zz.Assert(bh && bx && has, "a rejected DeleteRange has no effect")
	}
	var _ *zh.Hdr
}
