package p2p

// C05/C18 lemma: prepareRequests partitions [from, from+amount) into consecutive requests of 1..per
// headers. Decided for arbitrary 64-bit from/amount/per with a bounded number of requests, plus the
// repo's own table test pushed through the engine (translator validation: the Observe trace of a
// sampled path is compared with the native run).

import (
	zz "github.com/celestiaorg/go-header/internal/zzverif"
)

func ZzC05Prepare() {
	R := zz.Param("R", 4) // at most R requests
	from, amount, per := zz.U64("from"), zz.U64("amount"), zz.U64("per")
	zz.Assume(per >= 1 && amount >= 1)
	zz.Assume(amount <= uint64(R)*per && amount/per <= uint64(R)) // bound: at most R requests
	zz.Assume(from <= 1<<63 && amount <= 1<<62)                    // no wrap of from+amount
	reqs := prepareRequests(from, amount, per)
	zz.Observe("requests", uint64(len(reqs)))
	zz.Reach("prepared")
	zz.Assert(len(reqs) >= 1 && len(reqs) <= R, "number of requests within the bound")
	next := from
	total := uint64(0)
	for i, r := range reqs {
		zz.Assert(r.GetOrigin() == next, "requests are consecutive: each starts where the previous one ended")
		zz.Assert(r.Amount >= 1 && r.Amount <= per, "each request asks for 1..per headers")
		if i < len(reqs)-1 {
			zz.Assert(r.Amount == per, "only the last request may be shorter than per")
		}
		next += r.Amount
		total += r.Amount
	}
	zz.Assert(total == amount && next == from+amount, "the requests cover [from, from+amount) exactly")
	// the repo's own table case (Test_PrepareRequests)
	t := prepareRequests(1, 10, 5)
	zz.Observe("table.len", uint64(len(t)))
	zz.Assert(len(t) == 2 && t[0].GetOrigin() == 1 && t[1].GetOrigin() == 6, "Test_PrepareRequests table case")
}
