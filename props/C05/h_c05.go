package p2p

// Harness for C05 and C18: Exchange.GetRangeByHeight over the session, with the network cut at sendMessage.

import (
	"context"
	"errors"
	"time"

	"github.com/libp2p/go-libp2p/core/host"
	"github.com/libp2p/go-libp2p/core/network"
	"github.com/libp2p/go-libp2p/core/peer"
	"github.com/libp2p/go-libp2p/p2p/net/conngater"

	header "github.com/celestiaorg/go-header"
	zh "github.com/celestiaorg/go-header/internal/zzhdr"
	zz "github.com/celestiaorg/go-header/internal/zzverif"
	p2p_pb "github.com/celestiaorg/go-header/p2p/pb"
)

var zzErrNet5 = errors.New("zz: network error")

// minimal host: only what blockPeer touches
type zzNet struct{ network.Network }

func (zzNet) ClosePeer(peer.ID) error { return nil }

type zzHost struct{ host.Host }

func (zzHost) Network() network.Network { return zzNet{} }

type zzRangeEnv struct {
	chain     []*zh.Hdr // canonical chain, chain[i].H = i+1
	peers     []peer.ID
	ex        *Exchange[*zh.Hdr]
	reqs      int
	behave    func(peerIdx int, origin, amount uint64, nth int) ([]*p2p_pb.HeaderResponse, error)
	behaveCtx func(ctx context.Context, peerIdx int, origin, amount uint64, nth int) ([]*p2p_pb.HeaderResponse, error)
}

func zzResp(h *zh.Hdr) *p2p_pb.HeaderResponse {
	body, _ := h.MarshalBinary()
	return &p2p_pb.HeaderResponse{Body: body, StatusCode: p2p_pb.StatusCode_OK}
}

func zzNewRangeEnv(N, P, chunk int) *zzRangeEnv {
	env := &zzRangeEnv{}
	now := time.Now()
	t0 := now.Add(-time.Hour)
	env.chain = make([]*zh.Hdr, N)
	for i := range env.chain {
		env.chain[i] = &zh.Hdr{Chain: "c", H: uint64(i + 1), T: t0.Add(time.Duration(i) * time.Second), ID: i + 1, Prev: i}
	}
	// type-level verification: a header verifies iff it is canonical (identity == height) and, when adjacent,
	// links to its predecessor; forged headers (identity >= 1000) fail hard when adjacent, softly otherwise
	zh.VerifyFn = func(t, u *zh.Hdr) error {
		if u.ID == int(u.H) && u.ID <= N {
			return nil
		}
		if u.H == t.H+1 {
			return &header.VerifyError{Reason: zzErrNet5}
		}
		return &header.VerifyError{Reason: zzErrNet5, SoftFailure: true}
	}
	zh.ValidateFn = func(h *zh.Hdr) error {
		if h.Prev == 666 {
			return zzErrNet5
		}
		return nil
	}
	tracked := map[peer.ID]*peerStat{}
	for i := 0; i < P; i++ {
		id := peer.ID("peer" + zzItoa(i))
		env.peers = append(env.peers, id)
		tracked[id] = &peerStat{peerID: id, peerScore: float32(P - i)}
	}
	gater, _ := conngater.NewBasicConnectionGater(nil)
	pt := &peerTracker{host: zzHost{}, connGater: gater, trackedPeers: tracked, disconnectedPeers: map[peer.ID]*peerStat{}}
	env.ex = &Exchange[*zh.Hdr]{ctx: context.Background(), host: zzHost{}, peerTracker: pt}
	env.ex.Params = DefaultClientParameters()
	env.ex.Params.MaxHeadersPerRangeRequest = uint64(chunk)
	env.ex.Params.RequestTimeout = time.Second
	zzSend = func(ctx context.Context, to peer.ID, req *p2p_pb.HeaderRequest) ([]*p2p_pb.HeaderResponse, int, error) {
		idx := 0
		for k, p := range env.peers {
			if p == to {
				idx = k
			}
		}
		env.reqs++
		zz.Gate("send:" + string(to))
		var rs []*p2p_pb.HeaderResponse
		var err error
		if env.behaveCtx != nil {
			rs, err = env.behaveCtx(ctx, idx, req.GetOrigin(), req.Amount, env.reqs)
		} else {
			rs, err = env.behave(idx, req.GetOrigin(), req.Amount, env.reqs)
		}
		if uint64(len(rs)) > req.Amount {
			rs = rs[:req.Amount] // the real sendMessage reads at most req.Amount responses from the stream
		}
		return rs, 10 * len(rs), err
	}
	return env
}

// honest answer for [origin, origin+amount) limited to what the peer has (avail = highest height held)
func (env *zzRangeEnv) honest(origin, amount uint64, avail int) ([]*p2p_pb.HeaderResponse, error) {
	if origin < 1 || int(origin) > avail {
		return []*p2p_pb.HeaderResponse{{StatusCode: p2p_pb.StatusCode_NOT_FOUND}}, nil
	}
	var out []*p2p_pb.HeaderResponse
	for h := origin; h < origin+amount && int(h) <= avail; h++ {
		out = append(out, zzResp(env.chain[h-1]))
	}
	return out, nil
}

// ZzC05: every (from,to) around a short chain, chunk sizes and peer counts from the catalogue, and an
// arbitrary misbehaviour per request.
func ZzC05() {
	N := zz.Param("N", 6)
	P := 1 + zz.Choice("peers", zz.Param("P", 2))
	chunks := []int{1, 2, 3, 64}
	chunk := chunks[zz.Choice("chunk", zz.Param("CHUNKS", 3))]
	env := zzNewRangeEnv(N, P, chunk)
	fromIdx := zz.Choice("from", 2) // trusted header: height 1 or 2
	from := env.chain[fromIdx]
	// to: degenerate values, the regular range, and beyond
	var to uint64
	switch zz.Choice("to.kind", 4) {
	case 0:
		to = zz.U64("to.degenerate")
		zz.Assume(to <= from.H+1) // nothing to fetch: must be an error, not a panic or a hang
	case 1:
		to = from.H + 2 + uint64(zz.Choice("to.len", zz.Param("LEN", 4)))
	case 2:
		to = from.H + 2
	default:
		to = from.H + 3
	}
	budget := zz.Param("BADREQS", 2) // misbehaving answers are limited so that an honest retry can finish the range
	env.behave = func(p int, origin, amount uint64, nth int) ([]*p2p_pb.HeaderResponse, error) {
		if budget == 0 || !zz.Bool("misbehave") {
			return env.honest(origin, amount, N)
		}
		budget--
		switch zz.Choice("behaviour", 12) {
		case 0: // honest prefix
			return env.honest(origin, 1, N)
		case 1:
			return []*p2p_pb.HeaderResponse{{StatusCode: p2p_pb.StatusCode_NOT_FOUND}}, nil
		case 2: // empty
			return nil, nil
		case 3: // network error / timeout
			return nil, zzErrNet5
		case 4: // unknown status code
			return []*p2p_pb.HeaderResponse{{StatusCode: p2p_pb.StatusCode(7)}}, nil
		case 5: // undecodable body
			return []*p2p_pb.HeaderResponse{{Body: []byte{1, 2, 3}, StatusCode: p2p_pb.StatusCode_OK}}, nil
		case 6: // fails Validate
			h := *env.chain[origin-1]
			h.Prev = 666
			return []*p2p_pb.HeaderResponse{zzResp(&h)}, nil
		case 7: // wrong chain
			h := *env.chain[origin-1]
			h.Chain = "other"
			return []*p2p_pb.HeaderResponse{zzResp(&h)}, nil
		case 8: // shifted origin: genuine headers, but of other heights
			shift := uint64(1 + zz.Choice("shift", 2))
			return env.honest(origin+shift, amount, N)
		case 9: // gapped / reordered / repeated heights inside the answer
			var out []*p2p_pb.HeaderResponse
			if int(origin)+1 <= N {
				switch zz.Choice("shape", 3) {
				case 0:
					out = append(out, zzResp(env.chain[origin-1]), zzResp(env.chain[origin-1]))
				case 1:
					out = append(out, zzResp(env.chain[origin]), zzResp(env.chain[origin-1]))
				default:
					if int(origin)+2 <= N {
						out = append(out, zzResp(env.chain[origin-1]), zzResp(env.chain[origin+1]))
					}
				}
			}
			return out, nil
		case 10: // forged header of the right height
			h := *env.chain[origin-1]
			h.ID = 1000 + int(origin)
			return []*p2p_pb.HeaderResponse{zzResp(&h)}, nil
		default: // more responses than asked
			return env.honest(origin, amount+1, N)
		}
	}
	ctx, cancel := context.WithTimeout(context.Background(), time.Minute)
	defer cancel()
	res, err := env.ex.GetRangeByHeight(ctx, from, to)
	zz.ObserveBool("err_nil", err == nil)
	zz.Observe("len", uint64(len(res)))

	if to <= from.H+1 {
		zz.Reach("degenerate")
		zz.Assert(err != nil, "a degenerate request (to <= from.Height()+1) must yield an error")
		zz.Assert(ctx.Err() == nil, "a degenerate request must fail right away, not wait for the context")
		return
	}
	if err != nil {
		zz.Reach("error")
		zz.Assert(len(res) == 0, "no headers on error")
		return
	}
	zz.Reach("ok")
	zz.Assert(len(res) > 0, "a nil error comes with a non-empty result")
	for i, h := range res {
		zz.Assert(h.H == from.H+1+uint64(i), "heights are exactly from+1, from+2, ... without gaps or duplicates")
		zz.Assert(h.H < to, "all returned heights are below to")
		zz.Assert(h.ID == int(h.H) && h.Prev != 666 && h.Chain == "c", "only validated headers that verify from `from` are returned")
	}
}
