package store

// Harness for C04: the Store is a gap-free chain Tail..Head with consistent height and hash lookups.

import (
	"bytes"
	"context"
	"time"

	zh "github.com/celestiaorg/go-header/internal/zzhdr"
	zz "github.com/celestiaorg/go-header/internal/zzverif"
)

type zzCfg struct {
	cache, batch, flavour int
	base                  uint64
}

var zzCfgsQuick = []zzCfg{
	{2, 1, 0, 1},
	{2, 2, 1, 7},
	{512, 64, 0, 1 << 32},
	{3, 64, 1, 1},
	// large caches (no eviction): used by the threaded units, where the native replay must not depend on
	// Go's random map iteration order (which decides the order of flushed headers and so the LRU contents)
	{512, 1, 0, 1},
	{512, 64, 1, 1},
	// context-aware datastore with snapshot read transactions and a flush per header: a header leaves the
	// write batch as soon as it is appended, so a reader only finds it through the datastore
	{512, 1, 1, 1},
	// plain datastore (every delete is an immediate write) with a write batch of two: one header can
	// linger in the batch while the next append flushes it
	{2, 2, 0, 7},
}

func zzPickCfg() zzCfg {
	if zz.Param("FULLCFG", 0) == 1 {
		caches := []int{2, 3, 512}
		batches := []int{1, 2, 64}
		bases := []uint64{1, 7, 1 << 32}
		return zzCfg{caches[zz.Choice("cfg.cache", 3)], batches[zz.Choice("cfg.batch", 3)], zz.Choice("cfg.flavour", 2), bases[zz.Choice("cfg.base", 3)]}
	}
	if zz.Param("CFGPLUS", 0) == 1 {
		return zzCfgsQuick[[]int{0, 1, 2, 3, 7}[zz.Choice("cfg", 5)]]
	}
	return zzCfgsQuick[zz.Choice("cfg", 4)]
}

func zzOpen(d *zzMemDS, c zzCfg) *Store[*zh.Hdr] {
	s, err := NewStore[*zh.Hdr](zzWrapDS(d, c.flavour), WithWriteBatchSize(c.batch), WithStoreCacheSize(c.cache), WithIndexCacheSize(c.cache))
	zz.Assert(err == nil, "NewStore succeeds")
	zz.Assert(s.Start(context.Background()) == nil, "Start succeeds")
	return s
}

// zzModel is the reference: which chain headers are stored and where the contiguous run is.
type zzModel struct {
	stored     []bool
	init       bool
	tail, head int // indexes into the chain
}

func (m *zzModel) appendRun(i, j int) {
	for k := i; k <= j; k++ {
		m.stored[k] = true
	}
	if !m.init {
		m.init, m.tail, m.head = true, i, j
	}
	for m.head+1 < len(m.stored) && m.stored[m.head+1] {
		m.head++
	}
	for m.tail-1 >= 0 && m.stored[m.tail-1] {
		m.tail--
	}
}

// zzCheckStore compares the public API of the synced store with the model.
func zzCheckStore(ctx context.Context, s *Store[*zh.Hdr], chain []*zh.Hdr, m *zzModel) {
	head, herr := s.Head(ctx)
	tail, terr := s.Tail(ctx)
	if !m.init {
		zz.Assert(herr != nil && terr != nil, "empty store has neither head nor tail")
		return
	}
	zz.Assert(herr == nil && terr == nil, "initialised store has head and tail")
	if herr != nil || terr != nil {
		return
	}
	zz.Assert(tail.H <= head.H, "Tail <= Head")
	zz.Assert(head.H == chain[m.head].H, "Head is the top of the contiguous run (does not pass a gap, advances once it is filled)")
	zz.Assert(tail.H == chain[m.tail].H, "Tail is the bottom of the contiguous run")
	zz.Assert(s.Height() == head.H, "Height() equals Head().Height()")
	for i, h := range chain {
		inRun := i >= m.tail && i <= m.head
		zz.Assert(s.HasAt(ctx, h.H) == inRun, "HasAt agrees with the range Tail..Head")
		if !m.stored[i] && h.H <= head.H {
			_, err := s.GetByHeight(ctx, h.H)
			zz.Assert(err != nil, "a header that was deleted or never appended is not returned by GetByHeight")
		}
		if m.stored[i] {
			g, err := s.GetByHeight(ctx, h.H)
			zz.Assert(err == nil && g != nil && g.H == h.H && g.ID == h.ID, "every stored header is returned by GetByHeight with that exact height")
			g2, err := s.Get(ctx, h.Hash())
			zz.Assert(err == nil && g2 != nil && g2.H == h.H && bytes.Equal(g2.Hash(), h.Hash()), "Get(hash) returns the same header")
			ok, err := s.Has(ctx, h.Hash())
			zz.Assert(err == nil && ok, "Has agrees for a stored header")
		}
	}
	// ranges inside the run
	a := m.tail + zz.Choice("range.from", m.head-m.tail+1)
	b := a + zz.Choice("range.len", m.head-a+1)
	rs, err := s.GetRange(ctx, chain[a].H, chain[b].H+1)
	zz.Assert(err == nil && len(rs) == b-a+1, "GetRange inside Tail..Head returns exactly the requested heights")
	if err == nil && len(rs) == b-a+1 {
		for k := range rs {
			zz.Assert(rs[k].H == chain[a+k].H, "GetRange returns consecutive heights in order")
		}
	}
	if a > 0 && m.stored[a-1] {
		rs2, err := s.GetRangeByHeight(ctx, chain[a-1], chain[b].H+1)
		zz.Assert(err == nil && len(rs2) == b-a+1 && rs2[0].H == chain[a].H, "GetRangeByHeight(from, to) returns from+1 .. to-1")
	}
	// a range running past the head is an error or exactly the requested heights, never a sparse answer
	if m.head+1 < len(chain) {
		// (the store waits for the missing height: bound the wait)
		tctx, cancel := context.WithTimeout(ctx, time.Second)
		rs3, err := s.GetRange(tctx, chain[m.tail].H, chain[m.head].H+2)
		cancel()
		if err == nil {
			zz.Assert(len(rs3) == m.head-m.tail+2, "GetRange returns exactly the requested consecutive heights or an error")
		}
	}
}

// ZzC04 explores histories of Append / Sync / restart over a K-header chain for several store configurations.
func ZzC04() {
	K := zz.Param("K", 3)
	L := zz.Param("L", 2)
	ctx := context.Background()
	cfg := zzPickCfg()
	d := zzNewMemDS()
	s := zzOpen(d, cfg)
	chain := zzChain(cfg.base, K)
	m := &zzModel{stored: make([]bool, K)}
	// prelude (does not count towards L): a prefix of the chain already flushed to disk by an earlier run
	if pre := zz.Choice("prelude", K+1); pre > 0 {
		zz.Assert(s.Append(ctx, chain[:pre]...) == nil, "Append accepts chain headers")
		m.appendRun(0, pre-1)
		zz.Assert(s.Stop(ctx) == nil, "Stop succeeds")
		s = zzOpen(d, cfg)
	}
	for op := 0; op < L; op++ {
		switch zz.Choice("op", 4) {
		case 3: // DeleteRange around the ends of the current run
			if !m.init {
				continue
			}
			tailH, headH := chain[m.tail].H, chain[m.head].H
			froms := []uint64{tailH - 1, tailH, tailH + 1, headH}
			tos := []uint64{tailH + 1, headH, headH + 1, headH + 2}
			from, to := froms[zz.Choice("del.from", 4)], tos[zz.Choice("del.to", 4)]
			err := s.DeleteRange(ctx, from, to)
			valid := from < to && ((from == tailH && to <= headH+1) || (to == headH+1 && from >= tailH))
			zz.Assert((err == nil) == valid, "DeleteRange accepts exactly a prefix from Tail, a suffix to Head+1 or the whole chain")
			if valid && err == nil {
				zz.Reach("delete")
				for i := range chain {
					if chain[i].H >= from && chain[i].H < to {
						m.stored[i] = false
					}
				}
				switch {
				case from == tailH && to == headH+1:
					m.init = false
				case from == tailH:
					m.tail = int(to - chain[0].H)
				default:
					m.head = int(from-chain[0].H) - 1
				}
			}
		case 0: // append a contiguous sub-run chain[i..j] (any position: gaps, repeats, out of order)
			i := zz.Choice("app.i", K)
			j := i + zz.Choice("app.len", K-i)
			zz.Assert(s.Append(ctx, chain[i:j+1]...) == nil, "Append accepts chain headers")
			m.appendRun(i, j)
			zz.Reach("append")
		case 1:
			zz.Assert(s.Sync(ctx) == nil, "Sync succeeds")
		case 2: // restart on the same datastore
			zz.Assert(s.Stop(ctx) == nil, "Stop succeeds")
			s = zzOpen(d, cfg)
			zz.Reach("restart")
		}
	}
	zz.Assert(s.Sync(ctx) == nil, "Sync succeeds")
	if m.init && m.head-m.tail+1 < countTrue(m.stored) {
		zz.Reach("gap")
	}
	zzCheckStore(ctx, s, chain, m)
	zz.Assert(s.Stop(ctx) == nil, "Stop succeeds")
}

func countTrue(b []bool) int {
	n := 0
	for _, x := range b {
		if x {
			n++
		}
	}
	return n
}
