package sync

// Harness for C03 and C07: the Syncer stores one contiguous chain of verified headers (C03) and, with
// an honest getter, reaches every verified target (C07).

import (
	"context"
	"time"

	header "github.com/celestiaorg/go-header"
	zh "github.com/celestiaorg/go-header/internal/zzhdr"
	zz "github.com/celestiaorg/go-header/internal/zzverif"
)

const zzForeign = 1000 // identities >= zzForeign are not part of the canonical chain

type zzSyncEnv struct {
	K            int
	chain        []*zh.Hdr // canonical chain, heights 1..K, identity = height
	st           *zzSpecStore
	g            *zzGetter
	sub          *zzSub
	s            *Syncer[*zh.Hdr]
	getterErrs   int  // getter errors still to be injected
	errSinceHead bool // a getter error happened after the last accepted head
	rangeReqs    [][2]uint64
	netTop       uint64 // highest verified head handed out by the Head getter
	topAccepted  uint64 // highest canonical height accepted so far (stored initially, by gossip or by Head())
	forgedHeads  int    // forged heads offered by the Head getter so far
}

// zzWrappedErr: a getter error carrying a cause (what p2p.Exchange hands out when its own context ends
// under a request, or when a peer request runs into its deadline).
type zzWrappedErr struct{ inner error }

func (e *zzWrappedErr) Error() string { return "zz: getter failure: " + e.inner.Error() }
func (e *zzWrappedErr) Unwrap() error { return e.inner }

// getterErr draws the kind of the injected getter error (ERRKINDS=1): a plain failure, or one wrapping
// context.Canceled / context.DeadlineExceeded although the Syncer's own context is alive.
func (env *zzSyncEnv) getterErr() error {
	if zz.Param("ERRKINDS", 0) == 1 {
		switch zz.Choice("getter.errkind", 3) {
		case 1:
			zz.Reach("getter-error-wraps-canceled")
			return &zzWrappedErr{context.Canceled}
		case 2:
			return &zzWrappedErr{context.DeadlineExceeded}
		}
	}
	return zzErrGetter
}

// zzNewSyncEnv starts a real Syncer over the specification store holding chain[:stored].
func zzNewSyncEnv(ctx context.Context, K, stored, getterErrs int, gates bool) *zzSyncEnv {
	env := &zzSyncEnv{K: K, getterErrs: getterErrs}
	stale := zz.Param("STALE", 0) == 1 // the subjective head is never "recent": every Head() asks the network
	now := time.Now()
	t0 := now.Add(-time.Hour)
	env.chain = make([]*zh.Hdr, K)
	for i := range env.chain {
		env.chain[i] = &zh.Hdr{Chain: "c", H: uint64(i + 1), T: t0.Add(time.Duration(i) * time.Second), ID: i + 1, Prev: i}
	}
	// type-level verdicts: canonical -> canonical adjacent: ok; canonical non-adjacent: ok or soft (arbitrary);
	// a foreign (forged / forked) header never verifies: adjacent -> hard, non-adjacent -> soft or hard.
	memo := map[[2]int]int{}
	zh.VerifyFn = func(t, u *zh.Hdr) error {
		k := [2]int{t.ID, u.ID}
		out, ok := memo[k]
		if !ok {
			adjacent := u.H == t.H+1
			switch {
			case u.ID >= zzForeign+200:
				if adjacent {
					out = 2
				} else {
					out = 0 // weak forgery: passes when verified against an older header
				}
			case u.ID >= zzForeign+100 && adjacent && u.Prev == t.ID:
				out = 0 // a fork links to its canonical parent
			case u.ID >= zzForeign && adjacent:
				out = 2
			case u.ID >= zzForeign:
				out = 1 + zz.Choice("verdict.foreign", 2)
			case adjacent && zz.Param("SOFTADJ", 0) == 1:
				// a header type may be unable to vouch even for an adjacent header (soft failure): the
				// bifurcation then runs out of candidates
				out = zz.Choice("verdict.adjacent", 2)
			case adjacent:
				out = 0
			case zz.Param("NOSOFT", 0) == 1:
				out = 0
			default:
				out = zz.Choice("verdict.skip", 2)
			}
			memo[k] = out
		}
		switch out {
		case 0:
			return nil
		case 1:
			return &header.VerifyError{Reason: zzErrGetter, SoftFailure: true}
		}
		return &header.VerifyError{Reason: zzErrGetter}
	}
	env.st = zzNewSpecStore()
	env.st.Append(ctx, env.chain[:stored]...)
	env.st.batches, env.st.aliases = nil, nil
	env.topAccepted = uint64(stored)
	env.g = &zzGetter{}
	fail := func() bool {
		if env.getterErrs > 0 && zz.Bool("getter.fail") {
			env.getterErrs--
			env.errSinceHead = true
			return true
		}
		return false
	}
	env.g.getByHeight = func(_ context.Context, h uint64) (*zh.Hdr, error) {
		if gates {
			zz.Gate("getter:byheight")
		}
		if fail() {
			return nil, env.getterErr()
		}
		if h < 1 || h > uint64(K) {
			return nil, header.ErrNotFound
		}
		return env.chain[h-1], nil
	}
	env.g.getRange = func(_ context.Context, from *zh.Hdr, to uint64) ([]*zh.Hdr, error) {
		if gates {
			zz.Gate("getter:range")
		}
		env.rangeReqs = append(env.rangeReqs, [2]uint64{from.H, to})
		if fail() {
			return nil, env.getterErr()
		}
		// contract: a non-empty contiguous prefix of [from+1, to) or an error
		if to <= from.H+1 || from.H+1 > uint64(K) {
			return nil, header.ErrNotFound
		}
		hi := to - 1
		if hi > uint64(K) {
			hi = uint64(K)
		}
		n := int(hi - from.H)
		if n > 1 && zz.Bool("getter.partial") {
			n = 1 + zz.Choice("getter.prefix", n-1) // a shorter prefix
		}
		return env.chain[from.H : int(from.H)+n], nil
	}
	// Head requests (only issued when the subjective head is stale): a contract-abiding Head getter returns
	// a header that verifies against the trusted head, or a soft-failing one paired with its error
	env.g.head = func(_ context.Context, opts ...header.HeadOption[*zh.Hdr]) (*zh.Hdr, error) {
		if gates {
			zz.Gate("getter:head")
		}
		if fail() {
			return nil, env.getterErr()
		}
		var p header.HeadParams[*zh.Hdr]
		for _, o := range opts {
			o(&p)
		}
		h := env.chain[zz.Choice("nethead", K)]
		if p.TrustedHead == nil {
			return h, nil
		}
		if zz.Param("FORGEDHEAD", 0) == 1 && env.forgedHeads == 0 && zz.Bool("nethead.forged") {
			// dishonest trusted peers: a forged head two above the trusted one. Non-adjacent verification
			// against the trusted head either refuses it (the exchange then reports no head) or fails softly,
			// in which case the contract hands it out together with the soft error and the Syncer must bifurcate
			env.forgedHeads++
			h = &zh.Hdr{Chain: "c", H: p.TrustedHead.H + 2, T: time.Now().Add(-30 * time.Minute), ID: zzForeign + 50 + env.forgedHeads, Prev: zzForeign + 800 + env.forgedHeads}
			zz.Reach("forged-head-offered")
		}
		verr := header.Verify(p.TrustedHead, h)
		if verr == nil {
			if h.H > env.netTop {
				env.netTop = h.H
			}
			if h.H > env.topAccepted {
				// a head above everything accepted so far: it becomes the sync target ("the next learned head")
				env.topAccepted = h.H
				env.errSinceHead = false
			}
			return h, nil
		}
		if ve, ok := verr.(*header.VerifyError); ok && ve.SoftFailure {
			return h, verr
		}
		return nil, header.ErrNotFound
	}
	env.sub = &zzSub{}
	recency := 1000 * time.Hour
	if stale {
		recency = time.Nanosecond
	}
	tailOpt := WithSyncFromHeight(1)
	if w := zz.Param("WINDOW", 0); w > 0 {
		// the tail follows a pruning window of w block times instead of being pinned to height 1
		tailOpt = WithPruningWindow(time.Duration(w) * time.Second)
	}
	s, err := NewSyncer[*zh.Hdr](env.g, env.st, env.sub,
		WithTrustingPeriod(1000*time.Hour), WithRecencyThreshold(recency), WithBlockTime(time.Second), tailOpt)
	zz.Assert(err == nil, "NewSyncer succeeds")
	env.s = s
	zz.Assert(s.Start(ctx) == nil, "Start succeeds")
	env.st.gateHead = gates && zz.Param("STOREGATES", 0) == 1
	zh.HeightHook = nil
	if gates && zz.Param("HGATE", 0) == 1 {
		// every Height() call on one chosen canonical header is a scheduling point: lets a delivery land
		// inside the Syncer's own steps on that header (e.g. between the removal from the pending set and
		// the update of the store's head)
		gated := 2 + zz.Choice("hgate", K-1)
		zh.HeightHook = func(h *zh.Hdr) {
			if h.ID == gated {
				zz.Gate("hdr.height")
			}
		}
	}
	return env
}

// deliver hands one gossip header to the verifier the Syncer registered; returns its verdict.
func (env *zzSyncEnv) deliver(ctx context.Context, h *zh.Hdr) error {
	err := env.sub.verifier(ctx, h)
	if err == nil {
		env.errSinceHead = false
		if h.ID < zzForeign && h.H > env.topAccepted {
			env.topAccepted = h.H
		}
	}
	return err
}

// gossipHeader draws the next delivery: a canonical header of any height or a foreign one.
func (env *zzSyncEnv) gossipHeader(n int) *zh.Hdr {
	pick := zz.Choice("gossip.pick", env.K+5)
	if pick < env.K {
		return env.chain[pick]
	}
	if pick == env.K+4 {
		// a forged header right above the newest accepted head that only a non-adjacent (skipping)
		// verification would let through: adjacent verification against the true subjective head refuses it
		return &zh.Hdr{Chain: "c", H: env.topAccepted + 1, T: time.Now().Add(-30 * time.Minute), ID: zzForeign + 200 + n, Prev: zzForeign + 700 + n}
	}
	if pick == env.K+3 {
		// a fork: another header for an already stored height that links to the canonical parent, so it
		// verifies against that parent. An up-to-date subjective head refuses it as known.
		top := int(env.st.Height())
		if top < 2 {
			return env.chain[0] // nothing to fork yet: a stale delivery instead
		}
		hgt := 2 + zz.Choice("fork.height", top-1)
		return &zh.Hdr{Chain: "c", H: uint64(hgt), T: env.chain[hgt-1].T, ID: zzForeign + 100 + n, Prev: hgt - 1}
	}
	now := time.Now()
	hgt := zz.U64("gossip.height") // any height at all: stale, known, next, skipping, far beyond the tip, 0, 2^64-1
	f := &zh.Hdr{Chain: "c", H: hgt, T: now.Add(-30 * time.Minute), ID: zzForeign + n, Prev: zzForeign + 500 + n}
	switch pick - env.K {
	case 1:
		f.Chain = "other-chain"
	case 2:
		f.T = now.Add(time.Hour) // future-dated
	}
	return f
}

func (env *zzSyncEnv) pendingHas(h *zh.Hdr) bool {
	for _, r := range env.s.pending.ranges {
		for _, x := range r.headers {
			if x == h {
				return true
			}
		}
	}
	return false
}

// checkStore: the C03 store invariants.
func (env *zzSyncEnv) checkStore() { env.checkStoreAt(true) }

// checkStoreAt: while the sync loop is in flight two appenders may hand adjacent batches to the Store in
// either order, so only Tail..Head is required to be gap-free then; at quiescence everything stored must
// form one run.
func (env *zzSyncEnv) checkStoreAt(quiescent bool) {
	if quiescent {
		zz.Assert(env.st.zzContiguous(), "the Store stays one gap-free run Tail..Head")
	} else if env.st.head != nil {
		for h := env.st.tail.H; h <= env.st.head.H; h++ {
			_, ok := env.st.hdrs[h]
			zz.Assert(ok, "the Store stays one gap-free run Tail..Head")
		}
	}
	for _, h := range env.st.hdrs {
		zz.Assert(h.ID < zzForeign, "only headers of the verified chain are stored")
		zz.Assert(h == env.chain[h.H-1], "a stored header is the verified header of its height")
	}
	for n, b := range env.st.batches {
		for i := 1; i < len(b); i++ {
			zz.Assert(b[i].H == b[i-1].H+1, "every batch handed to the Store is ascending by one")
		}
		// the real Store only queues the slice and reads it later from its writer goroutine
		a := env.st.aliases[n]
		for i := range b {
			zz.Assert(a[i] == b[i], "a slice handed to Store.Append must not be modified afterwards")
		}
	}
	zz.Assert(env.st.overwrites == 0, "a stored header is never replaced by another header of the same height")
}

// ZzC03: G gossip deliveries (any mix of valid, stale, skipping, forged headers) interleaved with the
// sync loop's getter requests.
func ZzC03() {
	ctx := context.Background()
	K := zz.Param("K", 5)
	G := zz.Param("G", 2)
	stored := 1 + zz.Choice("stored", 2)
	env := zzNewSyncEnv(ctx, K, stored, zz.Param("ERRS", 1), true)
	for n := 0; n < G; n++ {
		zz.Gate("main:deliver")
		if zz.Param("STALE", 0) == 1 && (zz.Param("HEADONLY", 0) == 1 || zz.Bool("op.head")) {
			// a Head() call running concurrently with the deliveries and the sync loop
			go func() {
				h, err := env.s.Head(ctx)
				if err == nil && h != nil {
					zz.Assert(h.ID < zzForeign, "Head() never returns an unverified header")
				}
			}()
			zz.Reach("head-call")
			continue
		}
		h := env.gossipHeader(n)
		sbjBefore, _ := env.s.localHead(ctx)
		err := env.deliver(ctx, h)
		zz.ObserveBool("accepted", err == nil)
		if h.ID >= zzForeign {
			zz.Reach("foreign-delivered")
			zz.Assert(err != nil, "a forged / forked / wrong-chain / future-dated header must be refused")
		}
		if err != nil {
			zz.Reach("refused")
			now, _ := env.s.localHead(ctx)
			if h.ID >= zzForeign { // a canonical header may still be accepted through another verified path (Head(), getter)
				zz.Assert(!env.pendingHas(h), "a refused header must not become a sync target")
				zz.Assert(now != h, "a refused header must not become the subjective head")
			}
			if sbjBefore != nil && now != nil {
				zz.Assert(now.H >= sbjBefore.H, "the subjective head never moves backwards")
			}
			if h.ID >= zzForeign { // a canonical header may still arrive through a verified getter range
				zz.Assert(env.st.hdrs[h.H] != h, "a refused header is never stored")
			}
		} else {
			zz.Reach("accepted")
		}
		env.checkStoreAt(false)
	}
	zz.Quiesce()
	env.checkStore()
	zz.Reach("quiescent")
	head, _ := env.s.Head(ctx)
	if head != nil {
		zz.Assert(head.ID < zzForeign, "Head() never returns an unverified header")
	}
}

// ZzC03Concurrent: G gossip deliveries run as their own goroutines (the pubsub validator is called
// concurrently for different messages), so that one delivery can land while another one is in the middle
// of its bifurcation (scheduling points: every getter request). Oracles at quiescence plus a monotone
// subjective head observed by the main thread.
func ZzC03Concurrent() {
	ctx := context.Background()
	K := zz.Param("K", 6)
	G := zz.Param("G", 2)
	env := zzNewSyncEnv(ctx, K, 1, 0, true)
	done := 0
	for n := 0; n < G; n++ {
		n := n
		var h *zh.Hdr
		if zz.Param("CANON", 0) == 1 {
			h = env.chain[zz.Choice("gossip.canon", K)] // valid heads only: the interplay of two bifurcations
		} else {
			h = env.gossipHeader(n)
		}
		go func() {
			zz.Gate("deliverer:start")
			err := env.deliver(ctx, h)
			if h.ID >= zzForeign {
				zz.Assert(err != nil, "a forged / forked / wrong-chain / future-dated header must be refused")
				if err != nil {
					zz.Assert(!env.pendingHas(h), "a refused header must not become a sync target")
				}
			}
			done++
		}()
	}
	last := uint64(0)
	for o := 0; o < 2; o++ {
		zz.Gate("main:observe")
		if sbj, err := env.s.localHead(ctx); err == nil && sbj != nil {
			zz.Assert(sbj.H >= last, "the subjective head never moves backwards")
			zz.Assert(sbj.ID < zzForeign, "the subjective head is a verified header")
			last = sbj.H
		}
		env.checkStoreAt(false)
	}
	zz.Quiesce()
	zz.Assert(done == G, "every delivery returns")
	env.checkStore()
	zz.Reach("quiescent")
	if sbj, err := env.s.localHead(ctx); err == nil && sbj != nil {
		zz.Assert(sbj.H >= last, "the subjective head never moves backwards")
		zz.Assert(sbj.ID < zzForeign, "the subjective head is a verified header")
	}
	for _, r := range env.s.pending.ranges {
		for i := 1; i < len(r.headers); i++ {
			zz.Assert(r.headers[i].H == r.headers[i-1].H+1, "a pending range is ascending by one")
		}
	}
}
