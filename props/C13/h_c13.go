package p2p

// Harness for C13: Exchange.Get/GetByHeight return only validated, correctly bound headers.

import (
	"bytes"
	"context"
	"errors"
	"time"

	"github.com/libp2p/go-libp2p/core/peer"

	header "github.com/celestiaorg/go-header"
	zh "github.com/celestiaorg/go-header/internal/zzhdr"
	zz "github.com/celestiaorg/go-header/internal/zzverif"
	p2p_pb "github.com/celestiaorg/go-header/p2p/pb"
)

var zzErrNet = errors.New("zz: network error")

type zzPeerAnswer struct {
	kind     int // 0 error, 1 hang until the request context ends, 2 responses
	n        int // number of responses
	status   [2]int32
	short    [2]bool // body too short to decode
	invalid  [2]bool // Validate fails
	chain    [2]int  // 0 "c", 1 "C" (case differs), 2 "other"
	wrongID  [2]bool // header differs from the requested one (other hash / other height)
	valid    bool
	firstHdr int // identity of the first header of a valid answer
}

// ZzC13 performs one Get(hash) or GetByHeight(h) against P trusted peers with arbitrary answers.
func ZzC13() {
	P := zz.Param("P", 2)
	byHash := zz.Bool("by.hash")
	wantChain := ""
	if zz.Bool("chain.configured") {
		wantChain = "c"
	}
	const reqID, reqHeight = 7, 70
	chains := []string{"c", "C", "other"}

	np := 1 + zz.Choice("peers", P)
	peers := make(peer.IDSlice, np)
	answers := make([]*zzPeerAnswer, np)
	for i := range peers {
		peers[i] = peer.ID("peer" + zzItoa(i))
		pfx := "p" + zzItoa(i) + "."
		a := &zzPeerAnswer{kind: zz.Choice(pfx+"kind", 3)}
		simple := zz.Param("SIMPLE", 0) == 1 // short catalogue for the units with more peers: one response, honest / NOT_FOUND / invalid
		if a.kind == 2 {
			a.n = zz.Choice(pfx+"n", 3)
			if simple {
				a.n = 1
			}
			a.valid = a.n > 0
			for k := 0; k < a.n; k++ {
				// one defect per response (catalogue); later responses use a shorter catalogue
				nd := 7
				if k > 0 {
					nd = 4
				}
				a.status[k] = int32(p2p_pb.StatusCode_OK)
				defect := 0
				if simple {
					defect = []int{0, 1, 3}[zz.Choice(pfx+"defect"+zzItoa(k), 3)]
				} else {
					defect = zz.Choice(pfx+"defect"+zzItoa(k), nd)
				}
				switch defect {
				case 0: // honest
				case 1:
					a.status[k] = int32(p2p_pb.StatusCode_NOT_FOUND)
				case 2: // any status code other than OK / NOT_FOUND
					a.status[k] = zz.I32(pfx + "status")
					zz.Assume(a.status[k] != int32(p2p_pb.StatusCode_OK) && a.status[k] != int32(p2p_pb.StatusCode_NOT_FOUND))
				case 3:
					a.invalid[k] = true
				case 4:
					a.short[k] = true
				case 5:
					a.chain[k] = 1 + zz.Choice(pfx+"chain", 2)
				case 6:
					a.wrongID[k] = true
				}
				okChain := wantChain == "" || a.chain[k] != 2
				if a.status[k] != int32(p2p_pb.StatusCode_OK) || a.short[k] || a.invalid[k] || !okChain {
					a.valid = false
				}
			}
		}
		if a.kind == 2 && a.n > 0 {
			a.firstHdr = reqID
			if a.wrongID[0] {
				a.firstHdr = 100*(i+1) + reqID
			}
		}
		answers[i] = a
	}
	const invalidMark = 666 // carried in the encoded header: Validate rejects exactly these
	zh.ValidateFn = func(h *zh.Hdr) error {
		if h.Prev == invalidMark {
			return zzErrNet
		}
		return nil
	}
	zzSend = func(ctx context.Context, to peer.ID, req *p2p_pb.HeaderRequest) ([]*p2p_pb.HeaderResponse, int, error) {
		var i int
		for k := range peers {
			if peers[k] == to {
				i = k
			}
		}
		a := answers[i]
		zz.Gate("answer:" + string(to)) // fixes the arrival order of the answers for the native replay (threaded units)
		switch a.kind {
		case 0:
			return nil, 0, zzErrNet
		case 1:
			<-ctx.Done()
			return nil, 0, ctx.Err()
		}
		var out []*p2p_pb.HeaderResponse
		for k := 0; k < a.n; k++ {
			id := 100*(i+1) + 10*k + reqID // distinct per peer and position
			h := &zh.Hdr{Chain: chains[a.chain[k]], H: reqHeight, ID: id}
			if !a.wrongID[k] {
				h.ID = reqID
			} else if !byHash {
				h.H = reqHeight + 1
			}
			if a.invalid[k] {
				h.Prev = invalidMark
			}
			body, _ := h.MarshalBinary()
			if a.short[k] {
				body = body[:5]
			}
			out = append(out, &p2p_pb.HeaderResponse{Body: body, StatusCode: p2p_pb.StatusCode(a.status[k])})
		}
		return out, 10, nil
	}

	ex := &Exchange[*zh.Hdr]{ctx: context.Background(), trustedPeers: func() peer.IDSlice { return peers }}
	ex.Params = DefaultClientParameters()
	ex.Params.chainID = wantChain
	ex.Params.RequestTimeout = time.Second

	var res *zh.Hdr
	var err error
	hashKind := 0 // 0: the hash of the requested header, 1: empty, 2: nil
	if byHash && zz.Param("EMPTYHASH", 0) == 1 {
		hashKind = zz.Choice("hash.kind", 3)
	}
	if byHash {
		switch hashKind {
		case 1:
			res, err = ex.Get(context.Background(), header.Hash{})
		case 2:
			res, err = ex.Get(context.Background(), nil)
		default:
			res, err = ex.Get(context.Background(), zh.HashOf(reqID))
		}
	} else {
		res, err = ex.GetByHeight(context.Background(), reqHeight)
	}
	zz.ObserveBool("err_nil", err == nil)

	// --- oracle
	// which valid answer wins depends on the arrival order, which the property does not fix: the oracle
	// only speaks about the set of valid answers
	firstValid := -1
	otherHash := false // some valid answer carries another header than the requested one
	for i, a := range answers {
		if a.valid && firstValid < 0 {
			firstValid = i
		}
		if a.valid && a.firstHdr != reqID {
			otherHash = true
		}
	}
	zz.Assert(err != nil || res != nil, "a zero header must never come with a nil error")
	if hashKind != 0 {
		// no header has an empty hash: such a request cannot be satisfied
		zz.Reach("empty-hash")
		zz.Assert(err != nil, "Get: returned header must have the requested hash")
		return
	}
	if err == nil && res != nil {
		zz.Reach("ok")
		zz.Assert(firstValid >= 0, "success although no trusted peer answered validly")
		from := false
		for _, a := range answers {
			if a.valid && a.firstHdr == res.ID {
				from = true
			}
		}
		zz.Assert(from, "the returned header is the first header of a valid answer of a trusted peer")
		zz.Assert(res.Prev != invalidMark, "returned header must have passed Validate")
		zz.Assert(wantChain == "" || res.Chain == "c" || res.Chain == "C", "returned header must carry the configured chain ID")
		if byHash {
			zz.Assert(bytes.Equal(res.Hash(), zh.HashOf(reqID)), "Get: returned header must have the requested hash")
		}
	}
	if firstValid < 0 {
		zz.Reach("all-invalid")
		zz.Assert(err != nil, "no trusted peer answered validly: must be an error")
	} else if err != nil {
		zz.Reach("valid-but-error")
		// the only legitimate reason: Get and a valid answer that carries another hash came first
		zz.Assert(byHash && otherHash, "a valid answer from a trusted peer must be returned")
	}
	var _ = header.ErrNotFound
}
