package sync

// C19, monotone-during-sync unit: the heights returned by Syncer.Head() never decrease while the real
// sync loop is moving an announced (pending) head into the Store. Head() is called at every scheduling
// point of the run: before and after each gossip delivery, between the sync loop's getter request and
// its Store.Append, inside that Append, after a failed Append and at quiescence.

import (
	"context"

	zz "github.com/celestiaorg/go-header/internal/zzverif"
)

func ZzC19Mono() {
	ctx := context.Background()
	K := zz.Param("K", 4)
	G := zz.Param("G", 1)
	N := zz.Param("CALLS", 2)
	env := zzNewSyncEnv(ctx, K, 1+zz.Choice("stored", 2), zz.Param("ERRS", 0), true)
	env.st.gateAppend = true // the sync loop's Store.Append is a scheduling point (next to its getter requests)
	if zz.Bool("store.append.fails") {
		// one transient Store failure: the batch is refused, nothing is written
		failed := false
		env.st.failAppend = func() error {
			if !failed {
				failed = true
				zz.Reach("append-failed")
				return zzErrGetter
			}
			return nil
		}
	}
	var last uint64
	observe := func() {
		h, err := env.s.Head(ctx)
		if err == nil && h != nil {
			if h.H < last {
				zz.Reach("decreased")
			}
			zz.Assert(h.H >= last, "the heights returned by Syncer.Head() never decrease within one run")
			zz.Assert(h.ID < zzForeign, "Head() returns a verified header")
			last = h.H
		}
	}
	observe()
	for n := 0; n < G; n++ {
		zz.Gate("main:deliver")
		h := env.chain[zz.Choice("gossip.pick", K)]
		if env.deliver(ctx, h) == nil {
			zz.Reach("announced")
			if h.H > env.st.Height()+1 {
				zz.Reach("pending-head")
			}
		}
		observe()
		for c := 0; c < N; c++ {
			zz.Gate("main:head")
			observe()
		}
	}
	zz.Quiesce()
	observe()
	zz.Reach("quiescent")
}

// ZzC19Overlap: Head() callers that overlap with gossip deliveries and with each other while the
// subjective head is never recent, so that every call asks the network and a (lagging) trusted peer may
// answer an in-flight request with a head that has been overtaken in the meantime. Oracle (linearisation):
// a call never returns less than a call that had completed before it started.
func ZzC19Overlap() {
	ctx := context.Background()
	K := zz.Param("K", 3)
	G := zz.Param("G", 2)
	env := zzNewSyncEnv(ctx, K, 1, 0, true)
	maxDone := uint64(0)
	call := func() {
		startMax := maxDone
		h, err := env.s.Head(ctx)
		if err == nil && h != nil {
			zz.Assert(h.ID < zzForeign, "Head() returns a verified header")
			if h.H < startMax {
				zz.Reach("decreased")
			}
			zz.Assert(h.H >= startMax, "Head() never returns less than a call that had completed before it started")
			if h.H > maxDone {
				maxDone = h.H
			}
		}
	}
	early := false
	go func() {
		zz.Gate("caller:start")
		call() // its network request may stay in flight across the deliveries and the other calls
		early = true
	}()
	for n := 0; n < G; n++ {
		zz.Gate("main:deliver")
		h := env.chain[zz.Choice("gossip.pick", K)]
		if env.deliver(ctx, h) == nil {
			zz.Reach("announced")
		}
	}
	zz.Gate("main:head")
	call()
	zz.Quiesce()
	zz.Assert(early, "every Head() caller returns")
	call()
	zz.Reach("quiescent")
}
