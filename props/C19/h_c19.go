package sync

// Harness for C19: Syncer.Head is fresh, monotone and never adopts an expired header.

import (
	"context"
	"time"

	header "github.com/celestiaorg/go-header"
	zh "github.com/celestiaorg/go-header/internal/zzhdr"
	zz "github.com/celestiaorg/go-header/internal/zzverif"
)

// ZzC19 runs a sequence of Head() calls with clock advances and gossip heads in between.
func ZzC19() {
	K := zz.Param("K", 4)     // chain length
	C := zz.Param("CALLS", 2) // Head() calls
	ctx := context.Background()
	const lim = int64(1) << 40
	trusting := zz.Dur("p.trusting")
	blockTime := zz.Dur("p.blocktime")
	recency := zz.Dur("p.recency")
	zz.Assume(trusting > 0 && int64(trusting) < lim && blockTime >= 0 && int64(blockTime) < lim && recency >= 0 && int64(recency) < lim)
	p := Parameters{trustingPeriod: trusting, blockTime: blockTime, recencyThreshold: recency, SyncFromHeight: 1}
	threshold := recency
	if threshold == 0 {
		threshold = blockTime * 3
	}
	expired := func(h *zh.Hdr) bool { return time.Now().Sub(h.T.Add(trusting)) > 0 }
	recent := func(h *zh.Hdr) bool { return time.Now().Sub(h.T.Add(threshold)) <= 0 }

	start := time.Now()
	chain := make([]*zh.Hdr, K)
	for i := range chain {
		age := zz.Dur("age." + zzItoa(i)) // how old the header is at the start
		zz.Assume(age >= 0 && int64(age) < lim)
		chain[i] = &zh.Hdr{Chain: "c", H: uint64(i + 1), T: start.Add(-age), ID: i + 1, Prev: i}
		if i > 0 {
			zz.Assume(!chain[i].T.Before(chain[i-1].T))
		}
	}
	st := zzNewSpecStore()
	stored := zz.Choice("stored", K) // 0: empty store; s: headers 1..s stored
	for i := 0; i < stored; i++ {
		st.Append(ctx, chain[i])
	}
	g := &zzGetter{}
	var lastOpts header.HeadParams[*zh.Hdr]
	var lastAnswer *zh.Hdr
	g.head = func(_ context.Context, opts ...header.HeadOption[*zh.Hdr]) (*zh.Hdr, error) {
		lastOpts = header.HeadParams[*zh.Hdr]{}
		for _, o := range opts {
			o(&lastOpts)
		}
		if zz.Bool("request.slow") {
			// slow trusted peers: the answer arrives an arbitrary time after the request was sent
			d := zz.Dur("request.d")
			zz.Assume(d > 0 && int64(d) < lim)
			zz.Advance(d)
			zz.Reach("slow-request")
		}
		a := zz.Choice("head.answer", K+1)
		if a == K {
			lastAnswer = nil
			return nil, zzErrGetter
		}
		lastAnswer = chain[a]
		return chain[a], nil
	}
	g.getByHeight = func(_ context.Context, h uint64) (*zh.Hdr, error) {
		if h >= 1 && h <= uint64(K) {
			return chain[h-1], nil
		}
		return nil, header.ErrNotFound
	}
	s := &Syncer[*zh.Hdr]{store: syncStore[*zh.Hdr]{Store: st}, getter: g, head: syncHead[*zh.Hdr]{head: g}, Params: &p, triggerSync: make(chan struct{}, 1)}
	s.ctx = ctx

	lastReturned := uint64(0)
	for c := 0; c < C; c++ {
		if zz.Bool("advance") {
			d := zz.Dur("advance.d")
			zz.Assume(d > 0 && int64(d) < lim)
			zz.Advance(d)
		}
		if zz.Bool("gossip") {
			gi := zz.Choice("gossip.hdr", K)
			_ = s.incomingNetworkHead(ctx, chain[gi])
		}
		sbj, sbjErr := s.localHead(ctx)
		before := g.headCalls
		wasExpired := sbjErr == nil && expired(sbj)
		wasRecent := sbjErr == nil && recent(sbj)

		res, err := s.Head(ctx)
		calls := g.headCalls - before
		zz.Observe("calls", uint64(calls))
		zz.ObserveBool("err_nil", err == nil)

		switch {
		case sbjErr != nil || wasExpired:
			// (re)initialisation from trusted peers
			zz.Reach("init")
			zz.Assert(calls == 1, "subjective (re)initialisation asks the trusted peers exactly once")
			zz.Assert(lastOpts.TrustedHead == nil, "initialisation request carries no trusted head")
			if err == nil {
				zz.Reach("init-ok")
				zz.Assert(res != nil && !expired(res), "initialisation must not adopt an expired head")
			}
			if lastAnswer == nil || expired(lastAnswer) {
				zz.Reach("init-refused")
				zz.Assert(err != nil, "initialisation with a failing or expired trusted head must be an error")
			}
		case wasRecent:
			zz.Reach("recent")
			zz.Assert(calls == 0, "a recent subjective head is returned without network traffic")
			zz.Assert(err == nil && res == sbj, "a recent subjective head is returned as is")
		default:
			zz.Reach("stale")
			zz.Assert(calls == 1, "a stale subjective head triggers exactly one head request")
			zz.Assert(lastOpts.TrustedHead == sbj, "the head request is verified against the subjective head")
			zz.Assert(err == nil && res != nil, "a stale subjective head still yields a head")
			if err == nil && res != nil {
				zz.Assert(res.H >= sbj.H, "an answer lower than the subjective head never replaces it")
			}
		}
		if err == nil && res != nil {
			zz.Assert(res.H >= lastReturned, "heights returned by Head() never decrease")
			lastReturned = res.H
		}
		if now, e2 := s.localHead(ctx); sbjErr == nil && !wasExpired && e2 == nil {
			zz.Assert(now.H >= sbj.H, "the subjective head never moves backwards")
		}
	}
}
