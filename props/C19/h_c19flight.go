package sync

// C19, single-flight unit: concurrent Head() callers with a stale subjective head share one network
// head request and its result.

import (
	"context"
	"time"

	header "github.com/celestiaorg/go-header"
	zh "github.com/celestiaorg/go-header/internal/zzhdr"
	zz "github.com/celestiaorg/go-header/internal/zzverif"
)

func ZzC19Flight() {
	ctx := context.Background()
	K := zz.Param("K", 4)
	C := zz.Param("CALLERS", 2)
	env := zzNewSyncEnv(ctx, K, 1+zz.Choice("stored", 2), 0, true)
	inner := env.g.head
	inFlight, maxInFlight, requests := 0, 0, 0
	firstHangs := zz.Bool("first.request.hangs") // slow peers: the first head request only ends with its caller's timeout
	var trusted []*zh.Hdr
	env.g.head = func(c context.Context, opts ...header.HeadOption[*zh.Hdr]) (*zh.Hdr, error) {
		inFlight++
		requests++
		if inFlight > maxInFlight {
			maxInFlight = inFlight
		}
		var p header.HeadParams[*zh.Hdr]
		for _, o := range opts {
			o(&p)
		}
		trusted = append(trusted, p.TrustedHead)
		if firstHangs && requests == 1 {
			<-c.Done() // NetworkHeadRequestTimeout fires once nothing else can run
			inFlight--
			return nil, c.Err()
		}
		h, err := inner(c, opts...) // parks at the gate "getter:head"
		inFlight--
		return h, err
	}
	env.s.head.head = env.g // the syncHead wrapper must call the instrumented getter
	sbj, _ := env.s.localHead(ctx)
	type res struct {
		h    *zh.Hdr
		err  error
		done bool
	}
	results := make([]res, C)
	for c := 0; c < C; c++ {
		c := c
		go func() {
			zz.Gate("caller:start")
			h, err := env.s.Head(ctx)
			results[c] = res{h, err, true}
		}()
	}
	zz.Quiesce()
	if firstHangs {
		zz.Advance(3 * time.Second) // lets NetworkHeadRequestTimeout (2s) end the hanging request
		zz.Quiesce()
	}
	zz.Reach("quiescent")
	zz.Assert(maxInFlight <= 1, "concurrent Head() callers never have more than one head request in flight")
	for _, r := range results {
		zz.Assert(r.done, "every Head() caller returns")
		if r.done && r.err == nil && r.h != nil && sbj != nil {
			zz.Assert(r.h.H >= sbj.H, "Head() never returns less than the subjective head it started from")
			zz.Assert(r.h.ID < zzForeign, "Head() returns a verified header")
		}
	}
	for _, t := range trusted {
		zz.Assert(t != nil, "a stale subjective head is refreshed with a request verified against it")
	}
	// a later call still works: the single-flight slot is released whatever ended the earlier request
	before := requests
	lctx, lcancel := context.WithTimeout(ctx, time.Hour)
	h, err := env.s.Head(lctx)
	lcancel()
	zz.Reach("later-call")
	zz.Assert(err == nil && h != nil, "a later Head() call returns a head")
	zz.Assert(requests == before+1, "a later Head() call with a stale head issues exactly one new request")
	if firstHangs {
		zz.Reach("after-timed-out-request")
	}
	if requests == 2 && !firstHangs && C == 2 && results[0].done && results[1].done {
		zz.Reach("shared")
		if results[0].err == nil && results[1].err == nil {
			zz.Assert(results[0].h.H == results[1].h.H, "callers that shared one request see the same head")
		}
	}
}
