package sync

// Harnesses for C16: tail selection and pruning keep the tail within the chain and never crash.

import (
	"context"
	"time"

	header "github.com/celestiaorg/go-header"
	zh "github.com/celestiaorg/go-header/internal/zzhdr"
	zz "github.com/celestiaorg/go-header/internal/zzverif"
)

// zzParams draws every Parameters field and keeps what Validate accepts.
func zzParams() Parameters {
	p := Parameters{
		PruningWindow:    zz.Dur("p.window"),
		trustingPeriod:   zz.Dur("p.trusting"),
		blockTime:        zz.Dur("p.blocktime"),
		recencyThreshold: zz.Dur("p.recency"),
	}
	zz.Assume(p.Validate() == nil)
	return p
}

// zzTailStore is the store as the tail computation sees it: Height() and GetByHeight only.
type zzTailStore struct {
	header.Store[*zh.Hdr]
	height uint64
	get    func(h uint64) (*zh.Hdr, error)
}

func (s *zzTailStore) Height() uint64 { return s.height }
func (s *zzTailStore) GetByHeight(_ context.Context, h uint64) (*zh.Hdr, error) {
	return s.get(h)
}

// ZzC16Estimate: first start-up on an empty store (no old tail).
func ZzC16Estimate() {
	p := zzParams()
	s := &Syncer[*zh.Hdr]{Params: &p}
	head := &zh.Hdr{H: zz.U64("head.h"), T: zz.Time("head.t")}
	zz.Assume(head.H >= 1)
	h := s.estimateTailHeight(head)
	zz.Observe("tail", h)
	zz.Reach("estimated")
	zz.Assert(h >= 1 && h <= head.H, "estimated tail must lie in [1, head]")
}

// ZzC16FindSym: findTailHeight for arbitrary heights (long chains). The store answers every
// height in [tail, storeHeight] with a header whose time lies between tail and head time.
func ZzC16FindSym() {
	p := zzParams()
	scans := zz.Param("SCANS", 4)
	oldTail := &zh.Hdr{H: zz.U64("tail.h"), T: zz.Time("tail.t")}
	head := &zh.Hdr{H: zz.U64("head.h"), T: zz.Time("head.t")}
	storeH := zz.U64("store.h")
	zz.Assume(oldTail.H >= 1 && oldTail.H <= storeH && storeH <= head.H)
	zz.Assume(!oldTail.T.After(head.T))
	n := 0
	memo := map[uint64]*zh.Hdr{}
	st := &zzTailStore{height: storeH}
	st.get = func(h uint64) (*zh.Hdr, error) {
		if h < oldTail.H || h > storeH {
			return nil, header.ErrNotFound
		}
		if x, ok := memo[h]; ok {
			return x, nil
		}
		n++
		zz.Assume(n <= scans) // bound: at most SCANS scan iterations; longer scans are outside the claim
		x := &zh.Hdr{H: h, T: zz.Time("scan.t")}
		zz.Assume(!x.T.Before(oldTail.T) && !x.T.After(head.T))
		memo[h] = x
		return x, nil
	}
	s := &Syncer[*zh.Hdr]{Params: &p, store: syncStore[*zh.Hdr]{Store: st}}
	h, err := s.findTailHeight(context.Background(), oldTail, head)
	zz.Reach("found")
	zz.Assert(err == nil, "findTailHeight must not fail on a store that holds Tail..Head")
	if err != nil {
		return
	}
	zz.Observe("tail", h)
	zz.Assert(h >= oldTail.H, "new tail must not be below the old tail (no wrap-around)")
	zz.Assert(h <= head.H, "new tail must not be above the head")
}

// ZzC16FindChain: a chain of K+1 headers base..base+K with block spacing in [0, blockTime]:
// range and retention (no header younger than the pruning window is pruned).
func ZzC16FindChain() {
	p := zzParams()
	K := zz.Param("K", 4)
	regime := zz.Param("REGIME", 0)
	faster := false
	base := zz.U64("base")
	zz.Assume(base >= 1 && base <= 1<<62)
	chain := make([]*zh.Hdr, K+1)
	for i := 0; i <= K; i++ {
		chain[i] = &zh.Hdr{H: base + uint64(i), T: zz.Time("t." + itoa(i)), ID: i}
		if i > 0 {
			d := chain[i].T.Sub(chain[i-1].T)
			if regime == 0 {
				zz.Assume(d >= 0 && d <= p.blockTime) // "header times are spaced by at most the block time"
				if d < p.blockTime {
					faster = true
				}
			} else {
				// halted / slow chains: blocks never come faster than blockTime, gaps may be arbitrarily long.
				// Pruning a header that is still inside the window here can only come from an estimate that
				// wrapped around or left the chain (the property's "no wrap around" clause made observable).
				zz.Assume(p.blockTime > 0 && d >= p.blockTime)
			}
		}
	}
	oldTail, head := chain[0], chain[K]
	st := &zzTailStore{height: head.H}
	st.get = func(h uint64) (*zh.Hdr, error) {
		if h < base || h > head.H {
			return nil, header.ErrNotFound
		}
		i := int(h - base)
		return chain[i], nil
	}
	s := &Syncer[*zh.Hdr]{Params: &p, store: syncStore[*zh.Hdr]{Store: st}}
	h, err := s.findTailHeight(context.Background(), oldTail, head)
	zz.Reach("found")
	zz.Assert(err == nil, "findTailHeight must not fail on a store that holds Tail..Head")
	if err != nil {
		return
	}
	zz.Observe("tail", h)
	zz.Assert(h >= oldTail.H && h <= head.H, "new tail must lie in [old tail, head]")
	if h < oldTail.H || h > head.H {
		return
	}
	if h > oldTail.H {
		zz.Reach("pruned")
	}
	cut := head.T.Add(-p.PruningWindow)
	// known finding: when the old tail is at least one window behind the expected tail the estimate is taken
	// from the head (head - window/blockTime) and only ever scanned upwards, so with blocks faster than
	// blockTime headers inside the window are pruned.
	if regime == 1 {
		// only the head-based estimate (head - window/blockTime) can wrap; the tail-based one overshoots on
		// slow chains by design and is outside the property's retention clause
		zz.Assume(cut.Sub(oldTail.T) >= p.PruningWindow)
	}
	if zz.Known("C16-retention-estimate-from-head", regime == 0 && faster && cut.Sub(oldTail.T) >= p.PruningWindow) {
		zz.Reach("estimate-from-head")
	}
	for i := 0; i <= K; i++ {
		if chain[i].H < h { // pruned by moveTail
			zz.Assert(!chain[i].T.After(cut), "a header younger than the pruning window is pruned")
		}
	}
}

func itoa(i int) string {
	if i < 10 {
		return string(rune('0' + i))
	}
	return itoa(i/10) + string(rune('0'+i%10))
}

var _ = time.Second
