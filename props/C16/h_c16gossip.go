package sync

// C16, gossip unit: the tail is recomputed lazily on every gossip delivery (the verifier the Syncer
// registers). A delivery that is refused must not move the tail: its header is not part of the chain,
// whatever its timestamp says.

import (
	"context"
	"time"

	zh "github.com/celestiaorg/go-header/internal/zzhdr"
	zz "github.com/celestiaorg/go-header/internal/zzverif"
)

func ZzC16Gossip() {
	ctx := context.Background()
	K := zz.Param("K", 6)
	env := zzNewSyncEnv(ctx, K, K, 0, false) // the whole chain is stored; Start has pruned to the window already
	before, e0 := env.st.Tail(ctx)
	zz.Assert(e0 == nil, "the store has a tail")
	kept := map[uint64]bool{}
	for h := range env.st.hdrs {
		kept[h] = true
	}
	// a forged header right above the head, dated up to 2K block times after it
	later := 1 + zz.Choice("forged.later", 2*K)
	f := &zh.Hdr{Chain: "c", H: uint64(K + 1), T: env.chain[K-1].T.Add(time.Duration(later) * time.Second), ID: zzForeign + 1, Prev: zzForeign + 501}
	err := env.deliver(ctx, f)
	zz.Quiesce()
	zz.Reach("forged-delivered")
	zz.Assert(err != nil, "a forged header is refused")
	after, e1 := env.st.Tail(ctx)
	zz.Assert(e1 == nil && after.H == before.H, "a refused gossip header must not move the tail")
	for h := range kept {
		_, ok := env.st.hdrs[h]
		zz.Assert(ok, "a refused gossip header must not make the Syncer prune anything")
	}
	// a valid head that is learned afterwards moves the tail by the window rule only
	env.checkStore()
}
