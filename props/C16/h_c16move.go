package sync

// C16, move unit: the whole tail (re)computation - subjectiveTail = renewTail + moveTail - against a
// store holding a contiguous run of a K-chain, for every way of configuring the tail (height, hash,
// pruning window), moving it up (pruning) and down (syncing the difference).

import (
	"context"
	"encoding/hex"
	"time"

	header "github.com/celestiaorg/go-header"
	zh "github.com/celestiaorg/go-header/internal/zzhdr"
	zz "github.com/celestiaorg/go-header/internal/zzverif"
)

func ZzC16Move() {
	ctx := context.Background()
	K := zz.Param("K", 6)
	// AHEAD: the network head may lie up to AHEAD headers above the local head (a node that was offline)
	AHEAD := zz.Param("AHEAD", 0)
	now := time.Now()
	const bt = 10 * time.Second
	chain := make([]*zh.Hdr, K+AHEAD)
	for i := range chain {
		chain[i] = &zh.Hdr{Chain: "c", H: uint64(i + 1), T: now.Add(-time.Duration(K+AHEAD-i) * bt), ID: i + 1, Prev: i}
	}
	// the store holds chain[lo..hi]
	lo := zz.Choice("store.lo", K)
	hi := lo + zz.Choice("store.hi", K-lo)
	hd := hi // index of the network head the tail is recomputed for
	if AHEAD > 0 {
		hd = hi + zz.Choice("head.ahead", AHEAD+1)
	}
	st := zzNewSpecStore()
	st.Append(ctx, chain[lo:hi+1]...)
	g := &zzGetter{}
	// the network may fail to deliver the tail header (unreachable peers, a height they pruned already)
	gfail := zz.Param("GETTERFAIL", 0) == 1 && zz.Bool("getter.fails")
	fetches := 0
	g.getByHeight = func(_ context.Context, h uint64) (*zh.Hdr, error) {
		fetches++
		if gfail {
			return nil, header.ErrNotFound
		}
		if h < 1 || h > uint64(len(chain)) {
			return nil, header.ErrNotFound
		}
		return chain[h-1], nil
	}
	g.get = func(_ context.Context, hash header.Hash) (*zh.Hdr, error) {
		fetches++
		if gfail {
			return nil, header.ErrNotFound
		}
		for _, c := range chain {
			if string(c.Hash()) == string(hash) {
				return c, nil
			}
		}
		return nil, header.ErrNotFound
	}
	g.getRange = func(_ context.Context, from *zh.Hdr, to uint64) ([]*zh.Hdr, error) {
		if to <= from.H+1 || from.H+1 > uint64(len(chain)) {
			return nil, header.ErrNotFound
		}
		e := to - 1
		if e > uint64(len(chain)) {
			e = uint64(len(chain))
		}
		return chain[from.H:e], nil
	}
	p := DefaultParameters()
	p.blockTime = bt
	want := -1 // index the tail is configured to, -1: computed from the window
	switch zz.Choice("mode", 3) {
	case 0:
		want = zz.Choice("height", hd+1) // any height up to the network head: above, at or below the old tail
		p.SyncFromHeight = uint64(want + 1)
	case 1:
		want = zz.Choice("hash", hd+1)
		p.SyncFromHash = hex.EncodeToString(chain[want].Hash())
	default:
		p.PruningWindow = time.Duration(1+zz.Choice("window", K+AHEAD+1)) * bt
	}
	zz.Assert(p.Validate() == nil, "parameters are valid")
	s := &Syncer[*zh.Hdr]{store: syncStore[*zh.Hdr]{Store: st}, getter: g, Params: &p, triggerSync: make(chan struct{}, 1)}
	s.ctx = ctx
	head := chain[hd]
	// where the tail has to go: the configured header, or the oldest header inside the window (never below the old tail)
	target := want
	if want < 0 {
		cut := head.T.Add(-p.PruningWindow)
		target = lo
		for target < hd && chain[target].T.Before(cut) {
			target++
		}
	}
	if hd > hi {
		zz.Reach("head-ahead")
	}

	tail, err := s.subjectiveTail(ctx, head)
	zz.ObserveBool("err_nil", err == nil)
	zz.Reach("moved")
	if gfail && fetches > 0 {
		// the tail had to come from the network and did not: an error, no panic, the Store as it was
		zz.Reach("tail-fetch-failed")
		zz.Assert(err != nil, "a failed fetch of the new tail is reported as an error")
		t2, e2 := st.Tail(ctx)
		h2, e3 := st.Head(ctx)
		zz.Assert(e2 == nil && e3 == nil && t2.H == chain[lo].H && h2.H == chain[hi].H && st.zzContiguous(), "a failed fetch of the new tail leaves the Store untouched")
		return
	}
	// known finding: the tail moved down onto the header right below a store that holds a single header:
	// the diff [new tail+1, old tail] is the old tail = current head alone, and syncStore.Append refuses a
	// batch that starts at the head height as non-adjacent
	if zz.Known("C16-move-down-onto-single-header", want >= 0 && lo == hi && want == lo-1) {
		zz.Reach("single-header-store")
	}
	// known finding: the new tail lies beyond the local chain (above local head + 1): renewTail fetches it and
	// forces it into the Store as a detached header, then moveTail asks for DeleteRange(old tail, new tail),
	// which the Store refuses ("beyond current head+1")
	if zz.Known("C16-new-tail-beyond-local-head", target > hi+1) {
		zz.Reach("tail-beyond-local-head")
	}
	zz.Assert(err == nil, "recomputing the tail from a valid configuration succeeds (Head()/Start are not wedged)")
	if err != nil && target > hi+1 {
		return // the refused move leaves the fetched tail behind as a detached header: same finding, nothing more to check
	}
	zz.Assert(st.zzContiguous(), "the Store stays one gap-free chain")
	t2, e2 := st.Tail(ctx)
	h2, e3 := st.Head(ctx)
	zz.Assert(e2 == nil && e3 == nil && t2.H >= 1 && t2.H <= h2.H, "1 <= Tail <= Head")
	if err != nil || e2 != nil {
		return
	}
	if target <= hi {
		zz.Assert(h2.H == chain[hi].H, "the head is untouched")
	}
	if want >= 0 {
		if want < lo {
			zz.Reach("moved-down")
		} else if want > lo {
			zz.Reach("moved-up")
		}
		zz.Assert(tail.H == uint64(want+1) && t2.H == uint64(want+1), "the tail is the configured header")
	} else {
		zz.Reach("window")
		// spacing equals blockTime: nothing younger than the window may be pruned, and the old tail is never passed downwards
		cut := head.T.Add(-p.PruningWindow)
		zz.Assert(t2.H >= uint64(lo+1), "the pruning window never moves the tail down")
		for i := lo; i <= hi; i++ {
			if chain[i].H < t2.H {
				zz.Assert(!chain[i].T.After(cut), "a header younger than the pruning window is pruned")
			}
		}
	}
}
