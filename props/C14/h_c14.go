package store

// Harness for C14: OnDelete handlers run once per removed header, before it becomes unreadable.

import (
	"context"
	"errors"
	"sync"

	"github.com/ipfs/go-datastore"

	zz "github.com/celestiaorg/go-header/internal/zzverif"
)

type zzHandlerCall struct {
	handler  int
	height   uint64
	readable bool
	outcome  int // 0 nil, 1 error, 2 panic
}

var zzErrHandler = errors.New("zz: handler failure")

// zzHandlerMiss: a handler error that wraps datastore.ErrNotFound.
type zzHandlerMiss struct{}

func (*zzHandlerMiss) Error() string { return "zz: handler could not find its own record" }
func (*zzHandlerMiss) Unwrap() error { return datastore.ErrNotFound }

// ZzC14 deletes a permitted range with 1-2 handlers registered; one handler call may fail or panic.
func ZzC14() {
	ctx := context.Background()
	sc := zzBuildDelScenario(ctx)
	zz.Assume(sc.valid())
	s := sc.s
	K := sc.K
	nh := 1 + zz.Choice("handlers", 2)
	failCall := zz.Choice("fail.call", K*nh+1) - 1 // index of the failing handler call, -1: none
	// failure kinds: 1 plain error, 2 panic, 3 an error that wraps datastore.ErrNotFound (a handler that
	// looked something up in its own datastore and hands the miss on)
	failKind := 1 + zz.Choice("fail.kind", 2+zz.Param("NOTFOUNDKIND", 0))
	var calls []zzHandlerCall
	armed := true
	for hi := 0; hi < nh; hi++ {
		hi := hi
		s.OnDelete(func(ctx context.Context, height uint64) error {
			g, err := s.GetByHeight(ctx, height)
			c := zzHandlerCall{handler: hi, height: height, readable: err == nil && g != nil && g.H == height}
			if armed && len(calls) == failCall {
				c.outcome = failKind
			}
			calls = append(calls, c)
			switch c.outcome {
			case 1:
				return zzErrHandler
			case 2:
				panic("zz: handler panic")
			case 3:
				return &zzHandlerMiss{}
			}
			return nil
		})
	}
	whole := sc.from == sc.tailH && sc.to == sc.headH+1

	err := s.DeleteRange(ctx, sc.from, sc.to)
	zz.ObserveBool("err_nil", err == nil)
	zz.Observe("calls", uint64(len(calls)))

	failedAt := uint64(0)
	failed := false
	for _, c := range calls {
		zz.Assert(c.readable, "a handler must find its header readable through GetByHeight")
		zz.Assert(c.height >= sc.from && c.height < sc.to, "handlers are only called for heights of the range")
		if c.outcome != 0 {
			failed, failedAt = true, c.height
		}
	}
	if failed && failKind == 3 {
		// known finding: deleteSequential / deleteParallel take any error that wraps datastore.ErrNotFound for
		// "header not stored" - also one that comes out of a handler - count the height as missing and go on
		if zz.Known("C14-handler-error-wrapping-notfound", true) {
			zz.Reach("handler-miss-error")
		}
		zz.Assert(err != nil, "a handler error or panic is returned by DeleteRange")
		return
	}
	// per height: which handlers completed with nil
	okCount := func(h uint64, hi int) int {
		n := 0
		for _, c := range calls {
			if c.height == h && c.handler == hi && c.outcome == 0 {
				n++
			}
		}
		return n
	}
	for i := 0; i < K; i++ {
		h := sc.chain[i]
		bh, bx, _ := zzReadable(ctx, s, h)
		gone := !bh && !bx
		if !sc.inRange(i) {
			zz.Assert(bh && bx, "headers outside the range are untouched")
			continue
		}
		if gone {
			zz.Reach("removed")
			for hi := 0; hi < nh; hi++ {
				zz.Assert(okCount(h.H, hi) == 1, "every handler runs exactly once, with nil result, for each removed header")
			}
		} else {
			zz.Reach("kept")
			zz.Assert(failed, "without a handler failure every header of the range is removed")
		}
		if failed && h.H == failedAt {
			zz.Assert(bh && bx, "a header whose handler failed or panicked must stay readable")
		}
	}
	if failed {
		zz.Reach("handler-failed")
		zz.Assert(err != nil, "a handler error or panic is returned by DeleteRange")
		if sc.from == sc.tailH && !whole {
			// retry of the tail-side deletion: handlers are invoked again and the deletion completes
			armed = false
			before := len(calls)
			tail, terr := s.Tail(ctx)
			zz.Assert(terr == nil && tail.H == failedAt, "after a partial tail-side deletion Tail is the header whose handler failed")
			if terr != nil {
				return
			}
			err2 := s.DeleteRange(ctx, tail.H, sc.to)
			zz.Reach("retried")
			zz.Assert(err2 == nil, "retrying the tail-side deletion completes it")
			seen := false
			for _, c := range calls[before:] {
				if c.height == failedAt {
					seen = true
				}
			}
			zz.Assert(seen, "the retry invokes the handlers again for the header that was kept")
			for i := 0; i < K; i++ {
				if sc.inRange(i) {
					bh, bx, _ := zzReadable(ctx, s, sc.chain[i])
					zz.Assert(!bh && !bx, "after the retry the whole range is removed")
				}
			}
		}
	} else {
		zz.Assert(err == nil, "deletion without faults succeeds")
		zz.Assert(len(calls) == nh*int(sc.to-sc.from), "handlers x heights calls in total")
		if err == nil && zz.Param("FOLLOWUP", 0) == 1 {
			// the registration outlives a deletion (also one that emptied the store): the chain continues and
			// the next header deleted from the tail is announced to every handler again
			before := len(calls)
			armed = false
			zz.Assert(s.Append(ctx, sc.chain[K], sc.chain[K+1]) == nil, "Append ok")
			zz.Assert(s.Sync(ctx) == nil, "Sync ok")
			tail, terr := s.Tail(ctx)
			zz.Assert(terr == nil, "Tail of a non-empty store")
			if terr == nil {
				err3 := s.DeleteRange(ctx, tail.H, tail.H+1)
				zz.Reach("followup-delete")
				zz.Assert(err3 == nil, "a later tail-side deletion succeeds")
				for hi := 0; hi < nh; hi++ {
					n := 0
					for _, c := range calls[before:] {
						if c.handler == hi && c.height == tail.H && c.readable {
							n++
						}
					}
					zz.Assert(n == 1, "every registered handler is called exactly once for a header removed by a later DeleteRange")
				}
			}
		}
	}
	if whole {
		zz.Reach("whole-chain")
	}
}

// ZzC14Parallel: the parallel deletion path (threshold lowered to 2 headers) with handlers failing at
// up to two different heights, which different workers pick up.
func ZzC14Parallel() {
	ctx := context.Background()
	K := zz.Param("K", 4)
	deleteRangeParallelThreshold = 2
	cfg := zzCfgsQuick[zz.Choice("cfg", 2)*3] // batch 1 / plain or batch 64 / context-aware
	d := zzNewMemDS()
	s := zzOpen(d, cfg)
	chain := zzChain(cfg.base, K+1)
	zz.Assert(s.Append(ctx, chain...) == nil, "Append ok")
	zz.Assert(s.Stop(ctx) == nil, "Stop ok") // everything on disk
	s = zzOpen(d, cfg)
	tailH, headH := chain[0].H, chain[K].H
	// tail-side deletion of 2..K headers
	to := tailH + 2 + uint64(zz.Choice("len", K-1))
	// handlers fail for the heights of this set (none, one or two of them)
	failing := map[uint64]bool{}
	if nf := zz.Choice("failing", 3); nf > 0 {
		a := tailH + uint64(zz.Choice("fail.a", int(to-tailH)))
		failing[a] = true
		if nf > 1 {
			failing[tailH+uint64(zz.Choice("fail.b", int(to-tailH)))] = true
		}
	}
	armed := true
	okCalls := map[uint64]int{}
	var mu sync.Mutex // handlers run on several workers at once
	s.OnDelete(func(ctx context.Context, height uint64) error {
		g, err := s.GetByHeight(ctx, height)
		zz.Assert(err == nil && g != nil && g.H == height, "a handler must find its header readable through GetByHeight")
		mu.Lock()
		defer mu.Unlock()
		if armed && failing[height] {
			return zzErrHandler
		}
		okCalls[height]++
		return nil
	})
	err := s.DeleteRange(ctx, tailH, to)
	zz.Reach("parallel-delete")
	if len(failing) == 0 {
		zz.Assert(err == nil, "deletion without faults succeeds")
	} else {
		zz.Reach("parallel-failed")
		zz.Assert(err != nil, "a handler error is returned by DeleteRange")
	}
	tail, terr := s.Tail(ctx)
	zz.Assert(terr == nil, "Tail is present after a tail-side deletion")
	if terr != nil {
		return
	}
	zz.Assert(tail.H <= headH, "Tail <= Head")
	for i := 0; i <= K; i++ {
		h := chain[i]
		bh, bx, _ := zzReadable(ctx, s, h)
		if h.H >= to {
			zz.Assert(bh && bx, "headers outside the range are untouched")
			continue
		}
		if failing[h.H] {
			zz.Assert(bh && bx, "a header whose handler failed must stay readable")
		}
		if bh || bx {
			zz.Assert(h.H >= tail.H, "a header that was kept must not end up below Tail (a retry could never reach it)")
		} else {
			zz.Assert(okCalls[h.H] == 1, "every handler runs exactly once, with nil result, for each removed header")
		}
	}
	// (after a partial failure the parallel path may already have removed heights above the failed one;
	// C14 does not speak about that, see DESIGN section 12)
	if len(failing) > 0 {
		// retry: the handlers are invoked again for what was kept and the deletion completes
		armed = false
		err2 := s.DeleteRange(ctx, tail.H, to)
		zz.Assert(err2 == nil, "retrying the tail-side deletion completes it")
		for i := 0; i <= K; i++ {
			if chain[i].H < to {
				bh, bx, _ := zzReadable(ctx, s, chain[i])
				zz.Assert(!bh && !bx, "after the retry the whole range is removed")
			}
		}
		zz.Reach("parallel-retried")
	}
	zz.Assert(s.Stop(ctx) == nil, "Stop ok")
}
