package p2p

// Harness for C09: Exchange.Head returns the quorum/highest head and honours the trusted head.

import (
	"context"
	"errors"
	"time"

	"github.com/libp2p/go-libp2p/core/peer"

	header "github.com/celestiaorg/go-header"
	zh "github.com/celestiaorg/go-header/internal/zzhdr"
	zz "github.com/celestiaorg/go-header/internal/zzverif"
	p2p_pb "github.com/celestiaorg/go-header/p2p/pb"
)

// ZzC09Quorum: minHeadResponses(n) = n for n <= 2, else ceil(2n/3), for every n in [0, 2^31).
func ZzC09Quorum() {
	n := int(zz.I64("n"))
	zz.Assume(n >= 0 && n < 1<<31)
	r := minHeadResponses(n)
	if n <= 2 {
		zz.Reach("small")
		zz.Assert(r == n, "one or two peers: all of them must agree")
		return
	}
	zz.Reach("two-thirds")
	zz.Assert(3*r >= 2*n && 3*(r-1) < 2*n, "three or more peers: quorum is ceil(2n/3)")
	zz.Assert(r <= n, "quorum never exceeds the number of peers")
}

// ZzC09 runs one Head() call against n peers with arbitrary answers.
func ZzC09() {
	N := zz.Param("N", 3)
	D := zz.Param("D", 3) // distinct headers reported
	withTrusted := zz.Param("TRUSTED", 0) == 1
	n := 1 + zz.Choice("peers", N)
	now := time.Now()
	tm := now.Add(-time.Hour)

	trusted := &zh.Hdr{Chain: "c", H: zz.U64("trusted.h"), T: tm, ID: 500}
	// the distinct headers peers may report
	hdrs := make([]*zh.Hdr, D)
	verdict := make([]int, D) // type-level verdict against the trusted head: 0 ok, 1 soft, 2 hard
	for j := range hdrs {
		hdrs[j] = &zh.Hdr{Chain: "c", H: zz.U64("h" + zzItoa(j) + ".height"), T: tm.Add(time.Second), ID: 10 + j, Prev: 9 + j}
		zz.Assume(hdrs[j].H >= 1)
		if withTrusted {
			verdict[j] = zz.Choice("h"+zzItoa(j)+".verdict", 3)
		}
	}
	zh.VerifyFn = func(t, u *zh.Hdr) error {
		switch verdict[u.ID-10] {
		case 1:
			return &header.VerifyError{Reason: zzErrNet9, SoftFailure: true}
		case 2:
			return &header.VerifyError{Reason: zzErrNet9}
		}
		return nil
	}
	peers := make(peer.IDSlice, n)
	answer := make([]int, n) // -1 error, j: reports hdrs[j]
	for i := range peers {
		peers[i] = peer.ID("peer" + zzItoa(i))
		answer[i] = zz.Choice("p"+zzItoa(i)+".answer", D+1) - 1
	}
	zzSend = func(ctx context.Context, to peer.ID, req *p2p_pb.HeaderRequest) ([]*p2p_pb.HeaderResponse, int, error) {
		var i int
		for k := range peers {
			if peers[k] == to {
				i = k
			}
		}
		zz.Gate("answer:" + string(to)) // fixes the arrival order of the answers for the native replay
		if answer[i] < 0 {
			return nil, 0, zzErrNet9
		}
		body, _ := hdrs[answer[i]].MarshalBinary()
		return []*p2p_pb.HeaderResponse{{Body: body, StatusCode: p2p_pb.StatusCode_OK}}, len(body), nil
	}
	ex := &Exchange[*zh.Hdr]{ctx: context.Background()}
	ex.Params = DefaultClientParameters()
	tracked := map[peer.ID]*peerStat{}
	if withTrusted && !zz.Bool("tracker.empty") {
		// trusted-head requests go to tracked (ordinary) peers; the trusted set is someone else
		ex.trustedPeers = func() peer.IDSlice { return peer.IDSlice{"trusted-only"} }
		for _, p := range peers {
			tracked[p] = &peerStat{peerID: p, peerScore: 1}
		}
	} else {
		// no trusted head, or no tracked peer yet: the trusted peers are asked (and, with a trusted
		// head, their answers are verified against it all the same)
		if withTrusted {
			zz.Reach("tracker-empty")
		}
		ex.trustedPeers = func() peer.IDSlice { return peers }
	}
	ex.peerTracker = &peerTracker{trackedPeers: tracked, disconnectedPeers: map[peer.ID]*peerStat{}}

	var res *zh.Hdr
	var err error
	if withTrusted {
		res, err = ex.Head(context.Background(), header.WithTrustedHead[*zh.Hdr](trusted))
	} else {
		res, err = ex.Head(context.Background())
	}
	zz.ObserveBool("err_nil", err == nil)
	zz.ObserveBool("res_nil", res == nil)

	// --- reference: replay the answers in arrival order (= peer order under the run-to-block scheduler)
	quorum := n
	if n > 2 {
		quorum = (2*n + 2) / 3
	}
	type seen struct {
		j    int
		soft bool
	}
	var delivered []seen
	count := make([]int, D)
	expect := -1
	for i := 0; i < n && expect < 0; i++ {
		j := answer[i]
		if j < 0 {
			continue
		}
		soft := false
		if withTrusted {
			verr := header.Verify(trusted, hdrs[j]) // C01's subject; used here as the reference verdict
			if verr != nil {
				var ve *header.VerifyError
				if errors.As(verr, &ve) && ve.SoftFailure {
					soft = true
				} else {
					continue // hard failure: never counts, never returned
				}
			}
		}
		delivered = append(delivered, seen{j, soft})
		count[j]++
		if count[j] >= quorum {
			expect = j
		}
	}
	if len(delivered) == 0 {
		zz.Reach("nothing")
		zz.Assert(res == nil && errors.Is(err, header.ErrNotFound), "nobody supplied a usable header: zero header and ErrNotFound")
		return
	}
	zz.Assert(res != nil, "a usable header was reported: Head must return one")
	if res == nil {
		return
	}
	got := res.ID - 10
	zz.Assert(got >= 0 && got < D, "returned header must be one of the reported ones")
	if got < 0 || got >= D {
		return
	}
	wasDelivered, wasSoft := false, false
	for _, s := range delivered {
		if s.j == got {
			wasDelivered, wasSoft = true, s.soft
		}
	}
	zz.Assert(wasDelivered, "returned header must be a usable answer (never a hard-failing or unreported one)")
	if expect >= 0 {
		zz.Reach("quorum")
		zz.Assert(got == expect, "the first header reaching the quorum is returned")
	} else {
		zz.Reach("highest")
		for _, s := range delivered {
			zz.Assert(res.H >= hdrs[s.j].H, "without a quorum the highest reported header is returned")
		}
	}
	if wasSoft {
		zz.Reach("soft")
		var ve *header.VerifyError
		zz.Assert(err != nil && errors.As(err, &ve) && ve.SoftFailure, "a soft-failing head must come paired with its SoftFailure *VerifyError")
	} else {
		zz.Assert(err == nil, "a verified (or unverified trusted-peer) head comes with a nil error")
	}
}

var zzErrNet9 = errors.New("zz: network error")
