package sync

// Harness for C15: bifurcation accepts a soft-failing head iff a verifiable path exists; terminates.

import (
	"context"
	"time"

	header "github.com/celestiaorg/go-header"
	zh "github.com/celestiaorg/go-header/internal/zzhdr"
	zz "github.com/celestiaorg/go-header/internal/zzverif"
)

type zzCall struct {
	t, u int // header identities
	out  int // 0 ok, 1 soft, 2 hard
}

// ZzC15 drives incomingNetworkHead with a candidate d heights above the subjective head.
// mode 0: arbitrary type-level verdict per (trusted, untrusted) pair  -> soundness, refusal, termination
// mode 1: trust-range verdict (ok iff distance <= R), canonical candidate -> completeness as well
func ZzC15() {
	D := zz.Param("D", 8)
	mode := zz.Param("MODE", 0)
	ctx := context.Background()
	base := zz.U64("base")
	zz.Assume(base >= 1 && base < 1<<62)
	d := 2 + zz.Choice("d", D-1) // candidate distance 2..D
	now := time.Now()
	t0 := now.Add(-time.Hour)
	// canonical chain base..base+d ; identity = offset
	chain := make([]*zh.Hdr, d+1)
	for i := 0; i <= d; i++ {
		chain[i] = &zh.Hdr{Chain: "c", H: base + uint64(i), T: t0.Add(time.Duration(i) * time.Second), ID: i, Prev: i - 1}
	}
	cand := chain[d]
	forged := false
	if mode == 0 && zz.Bool("forged") {
		forged = true
		cand = &zh.Hdr{Chain: "c", H: base + uint64(d), T: t0.Add(time.Duration(d) * time.Second), ID: 1000, Prev: 999}
	}
	R := 0
	if mode == 1 {
		R = 1 + zz.Choice("R", d) // trust range 1..d
	}

	// what the header type returns for "too far to verify directly" in the trust-range mode: a soft
	// *VerifyError, or an ordinary error that header.Verify itself has to classify (soft: never adjacent here)
	plainErrs := mode == 1 && zz.Bool("errshape.plain")
	var calls []zzCall
	memo := map[[2]int]int{}
	zh.VerifyFn = func(t, u *zh.Hdr) error {
		k := [2]int{t.ID, u.ID}
		out, ok := memo[k]
		if !ok {
			if mode == 1 {
				if int(u.H-t.H) <= R {
					out = 0
				} else {
					out = 1
				}
			} else {
				out = zz.Choice("P."+zzItoa(t.ID)+"."+zzItoa(u.ID), 3)
				if forged && u.ID == 1000 && u.H == t.H+1 && out == 0 {
					out = 2 // a forged header never passes adjacent verification
				}
			}
			memo[k] = out
		}
		calls = append(calls, zzCall{t.ID, u.ID, out})
		switch out {
		case 0:
			return nil
		case 1:
			if plainErrs {
				return zzErrGetter
			}
			return &header.VerifyError{Reason: zzErrGetter, SoftFailure: true}
		default:
			return &header.VerifyError{Reason: zzErrGetter}
		}
	}

	st := zzNewSpecStore()
	st.Append(ctx, chain[0])
	g := &zzGetter{}
	getterFailed := false
	lg := 0
	for 1<<lg < d {
		lg++
	}
	bound := d * (lg + 2)
	g.getByHeight = func(_ context.Context, h uint64) (*zh.Hdr, error) {
		if g.byHeightCalls > bound {
			// termination oracle, checked inside the loop so that a non-terminating search is cut here
			zz.Assert(false, "bifurcation must terminate within d*(ceil(log2 d)+2) getter requests")
			zz.Assume(false)
		}
		if mode == 0 && zz.Bool("getter.fail") {
			getterFailed = true
			return nil, zzErrGetter
		}
		if h < base || h > base+uint64(d) {
			return nil, header.ErrNotFound
		}
		return chain[int(h-base)], nil
	}
	p := DefaultParameters()
	s := &Syncer[*zh.Hdr]{store: syncStore[*zh.Hdr]{Store: st}, getter: g, Params: &p, triggerSync: make(chan struct{}, 1)}
	s.ctx = ctx

	err := s.incomingNetworkHead(ctx, cand)
	zz.ObserveBool("accepted", err == nil)
	zz.Observe("requests", uint64(g.byHeightCalls))

	zz.Assert(g.byHeightCalls <= bound, "bifurcation must terminate within d*(ceil(log2 d)+2) getter requests")

	// --- what was promoted to subjective head, in order: store appends and pending adds
	var promoted []*zh.Hdr
	for _, b := range st.batches[1:] {
		promoted = append(promoted, b...)
	}
	for _, r := range s.pending.ranges {
		promoted = append(promoted, r.headers...)
	}
	verifiedBy := func(trusted map[int]bool, u int) bool {
		for _, c := range calls {
			if c.u == u && c.out == 0 && trusted[c.t] {
				return true
			}
		}
		return false
	}
	trusted := map[int]bool{0: true}
	// promotion order = call order: replay the log
	for _, c := range calls {
		if c.out == 0 && trusted[c.t] {
			trusted[c.u] = true
		}
	}
	for _, h := range promoted {
		zz.Assert(verifiedBy(trusted, h.ID), "only headers verified against an already trusted header may be promoted")
	}
	candPromoted := false
	for _, h := range promoted {
		if h == cand {
			candPromoted = true
		}
	}
	if err == nil {
		zz.Reach("accepted")
		if len(calls) > 1 {
			zz.Reach("accepted-via-bifurcation")
		}
		zz.Assert(verifiedBy(trusted, cand.ID), "accepted candidate must have passed Verify against a verified intermediate")
		zz.Assert(candPromoted, "accepted candidate becomes the sync target")
		zz.Assert(!getterFailed, "a getter failure must refuse the candidate")
		zz.Assert(!forged || memo[[2]int{d - 1, 1000}] != 2 || !verifiedByAdjacentOnly(calls, cand.ID, d-1), "forged candidate accepted")
	} else {
		zz.Reach("refused")
		zz.Assert(!candPromoted, "a refused candidate must not become the sync target")
		if mode == 1 {
			zz.Assert(false, "trust-range predicate with canonical candidate: a verifiable path exists, candidate must be accepted")
		}
	}
	if getterFailed {
		zz.Reach("getter-failed")
		zz.Assert(err != nil, "intermediates cannot be fetched: candidate must be refused")
	}
}

// verifiedByAdjacentOnly: the only successful verification of u came from the header right below it.
func verifiedByAdjacentOnly(calls []zzCall, u, below int) bool {
	for _, c := range calls {
		if c.u == u && c.out == 0 && c.t != below {
			return false
		}
	}
	return true
}
