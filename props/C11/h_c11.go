package p2p

// Harness for C11: Subscriber delivers/relays a gossip message only if it decodes and verifies.

import (
	"context"
	"errors"
	"fmt"

	pubsub "github.com/libp2p/go-libp2p-pubsub"
	pubsubpb "github.com/libp2p/go-libp2p-pubsub/pb"

	header "github.com/celestiaorg/go-header"
	zh "github.com/celestiaorg/go-header/internal/zzhdr"
	zz "github.com/celestiaorg/go-header/internal/zzverif"
)

var (
	zzErrPlain = errors.New("zz: plain verifier error")
	zzErrInner = errors.New("zz: inner reason")
)

// ZzC11 runs the topic validator on one message for every payload shape and verifier outcome.
func ZzC11() {
	sub := &Subscriber[*zh.Hdr]{verifierSema: make(chan struct{})}
	if zz.Bool("metrics") {
		// WithSubscriberMetrics: the repo's own bookkeeping around the (opaque) otel instruments runs as code
		m, err := newSubscriberMetrics()
		zz.Assert(err == nil && m != nil, "metrics can be created")
		sub.metrics = m
		zz.Reach("metrics-enabled")
		if zz.Bool("restarted") {
			// Stop followed by Start: Stop closes the metrics, Start keeps the same object
			_ = m.Close()
			zz.Reach("restarted")
		}
	}
	orig := &zh.Hdr{Chain: "c", H: 5, ID: 5, Prev: 4}
	raw, _ := orig.MarshalBinary()

	// --- payload
	msg := &pubsub.Message{Message: &pubsubpb.Message{}}
	payload := zz.Choice("payload", 5)
	switch payload {
	case 0: // locally published: header attached
		msg.ValidatorData = orig
		msg.Data = raw
	case 1: // attached data of a foreign type
		msg.ValidatorData = "not a header"
		msg.Data = raw
	case 2: // raw bytes of a header
		msg.Data = raw
	case 3: // truncated bytes
		msg.Data = raw[:7]
	case 4: // no bytes at all
		msg.Data = nil
	}
	unm := zz.Choice("unmarshal", 3) // 0 ok, 1 error, 2 panic
	zh.UnmarshalFn = func([]byte) error {
		switch unm {
		case 1:
			return zzErrPlain
		case 2:
			panic("zz: decoder panic")
		}
		return nil
	}
	val := zz.Choice("validate", 3)
	zh.ValidateFn = func(*zh.Hdr) error {
		switch val {
		case 1:
			return zzErrPlain
		case 2:
			panic("zz: validate panic")
		}
		return nil
	}
	// --- verifier
	ver := zz.Choice("verifier", 11)
	verCalls := 0
	var verSeen *zh.Hdr
	var verErr error
	verifier := func(_ context.Context, h *zh.Hdr) error {
		verCalls++
		verSeen = h
		switch ver {
		case 0, 9:
			verErr = nil
		case 1:
			verErr = &header.VerifyError{Reason: zzErrInner, SoftFailure: true}
		case 2:
			verErr = &header.VerifyError{Reason: zzErrInner}
		case 3:
			verErr = fmt.Errorf("wrapped: %w", &header.VerifyError{Reason: zzErrInner, SoftFailure: true})
		case 4:
			verErr = fmt.Errorf("wrapped: %w", &header.VerifyError{Reason: zzErrInner})
		case 5:
			verErr = zzErrPlain
		case 6:
			verErr = errors.Join(zzErrPlain, &header.VerifyError{Reason: zzErrInner, SoftFailure: true})
		case 7:
			verErr = fmt.Errorf("outer: %w", fmt.Errorf("wrapped: %w", &header.VerifyError{Reason: zzErrInner, SoftFailure: true}))
		case 8:
			panic("zz: verifier panic")
		}
		return verErr
	}
	ctx, cancel := context.WithCancel(context.Background())
	defer cancel()
	verifierSet := true
	switch ver {
	case 10: // never set; the validation context ends
		verifierSet = false
		cancel()
	case 9: // set while the validator is already waiting for it
		go func() { zz.Assert(sub.SetVerifier(verifier) == nil, "SetVerifier succeeds") }()
	default:
		zz.Assert(sub.SetVerifier(verifier) == nil, "SetVerifier succeeds")
	}

	res := sub.verifyMessage(ctx, "", msg) // a panic escaping here is reported by the engine as a violation
	zz.Observe("result", uint64(res))

	// --- oracle
	decodeOK := false
	switch payload {
	case 0:
		decodeOK = true
	case 2:
		decodeOK = unm == 0
	}
	validOK := decodeOK && val == 0
	if !validOK {
		zz.Reach("undecodable-or-invalid")
		zz.Assert(res == pubsub.ValidationReject, "undecodable, wrongly typed or invalid payload must be rejected")
		zz.Assert(verCalls == 0, "verifier must not see a header that did not decode and validate")
		return
	}
	if !verifierSet {
		zz.Reach("no-verifier")
		zz.Assert(res == pubsub.ValidationIgnore, "context ended before a verifier was set: message is ignored")
		return
	}
	zz.Assert(verCalls == 1, "verifier runs exactly once")
	if ver == 8 {
		zz.Reach("verifier-panic")
		zz.Assert(res == pubsub.ValidationReject, "panic in the verifier rejects the message")
		return
	}
	var ve *header.VerifyError
	soft := errors.As(verErr, &ve) && ve.SoftFailure
	switch {
	case verErr == nil:
		zz.Reach("accept")
		zz.Assert(res == pubsub.ValidationAccept, "decoded, valid and verified message must be accepted")
		got, ok := msg.ValidatorData.(*zh.Hdr)
		zz.Assert(ok && got == verSeen, "the delivered value is the verified header")
		if ok {
			zz.Assert(got.ID == orig.ID && got.H == orig.H, "the delivered header is the one that was sent")
		}
	case soft:
		zz.Reach("ignore-soft")
		zz.Assert(res == pubsub.ValidationIgnore, "soft verification failure: message is ignored, sender not penalised")
	default:
		zz.Reach("reject-hard")
		zz.Assert(res == pubsub.ValidationReject, "hard verification failure rejects the message")
	}
	if res != pubsub.ValidationAccept && payload == 2 {
		zz.Assert(msg.ValidatorData == nil, "a message that is not accepted carries no delivered value")
	}
}
