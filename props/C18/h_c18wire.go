package p2p

// Wire units of C18 and C05: the real client (Exchange, sendMessage, serde, protobuf) talks to the
// real server (requestHandler, serde, protobuf) through an in-memory pipe instead of a libp2p stream.

import (
	"bytes"
	"context"
	"errors"
	"io"
	"time"

	"github.com/libp2p/go-libp2p/core/host"
	"github.com/libp2p/go-libp2p/core/network"
	"github.com/libp2p/go-libp2p/core/peer"
	"github.com/libp2p/go-libp2p/core/protocol"
	"github.com/libp2p/go-libp2p/p2p/net/conngater"

	"github.com/celestiaorg/go-libp2p-messenger/serde"

	header "github.com/celestiaorg/go-header"
	zh "github.com/celestiaorg/go-header/internal/zzhdr"
	zz "github.com/celestiaorg/go-header/internal/zzverif"
	p2p_pb "github.com/celestiaorg/go-header/p2p/pb"
)

// zzPipe is the client's end: the request is collected until CloseWrite, then the server's handler
// runs on it and its output becomes what the client reads.
type zzPipe struct {
	network.Stream
	serv   *ExchangeServer[*zh.Hdr]
	req    []byte
	resp   []byte
	pos    int
	reset  bool
	extra  []byte // a Byzantine server appends this after the genuine answer
	silent bool   // the peer accepts the stream, reads the request and never answers
	readDL time.Time
}

func (p *zzPipe) Write(b []byte) (int, error) { p.req = append(p.req, b...); return len(b), nil }
func (p *zzPipe) CloseWrite() error {
	if p.silent {
		return nil
	}
	s := &zzStream{in: p.req}
	p.serv.requestHandler(s)
	p.resp, p.reset = append(s.out, p.extra...), s.reset
	return nil
}
func (p *zzPipe) Read(b []byte) (int, error) {
	if p.silent {
		if p.readDL.IsZero() {
			select {} // no read deadline: the read never returns
		}
		if d := time.Until(p.readDL); d > 0 {
			time.Sleep(d)
		}
		return 0, zzErrReadDeadline
	}
	if p.reset {
		return 0, network.ErrReset
	}
	if p.pos >= len(p.resp) {
		return 0, io.EOF
	}
	n := copy(b, p.resp[p.pos:])
	p.pos += n
	return n, nil
}
func (p *zzPipe) Close() error { return nil }
func (p *zzPipe) Reset() error { return nil }

// deadlines: the read deadline matters for a peer that never answers
func (p *zzPipe) SetDeadline(t time.Time) error     { p.readDL = t; return nil }
func (p *zzPipe) SetReadDeadline(t time.Time) error { p.readDL = t; return nil }
func (p *zzPipe) SetWriteDeadline(time.Time) error  { return nil }

type zzWireHost struct {
	host.Host
	servers map[peer.ID]*ExchangeServer[*zh.Hdr]
	extra   func(to peer.ID) []byte
	silent  map[peer.ID]bool
	streams int
}

var zzErrReadDeadline = errors.New("zz: read deadline exceeded")

type zzWireNet struct{ network.Network }

func (zzWireNet) ClosePeer(peer.ID) error { return nil }

func (h *zzWireHost) Network() network.Network { return zzWireNet{} }

func (h *zzWireHost) NewStream(_ context.Context, to peer.ID, _ ...protocol.ID) (network.Stream, error) {
	h.streams++
	p := &zzPipe{serv: h.servers[to], silent: h.silent[to]}
	if h.extra != nil {
		p.extra = h.extra(to)
	}
	return p, nil
}

func zzSameHeader(a, b *zh.Hdr) bool {
	return a != nil && b != nil && a.H == b.H && a.ID == b.ID && a.Prev == b.Prev && a.Chain == b.Chain && a.T.Equal(b.T)
}

func zzWireSetup(N, tail, head int) ([]*zh.Hdr, *zzWireStore, *zzWireHost, *Exchange[*zh.Hdr]) {
	t0 := time.Now().Add(-time.Hour)
	chain := make([]*zh.Hdr, N)
	for i := range chain {
		chain[i] = &zh.Hdr{Chain: "c", H: uint64(i + 1), T: t0.Add(time.Duration(i) * time.Second), ID: i + 1, Prev: i}
	}
	zh.VerifyFn = func(t, u *zh.Hdr) error {
		if u.ID == int(u.H) && u.ID <= N {
			return nil
		}
		return &header.VerifyError{Reason: header.ErrNotFound}
	}
	st := &zzWireStore{chain: chain, tail: tail, head: head}
	serv := &ExchangeServer[*zh.Hdr]{store: st, Params: DefaultServerParameters(), ctx: context.Background()}
	p0 := peer.ID("server0")
	hst := &zzWireHost{servers: map[peer.ID]*ExchangeServer[*zh.Hdr]{p0: serv}}
	ex := &Exchange[*zh.Hdr]{ctx: context.Background(), host: hst, trustedPeers: func() peer.IDSlice { return peer.IDSlice{p0} }}
	ex.Params = DefaultClientParameters()
	ex.Params.RequestTimeout = time.Second
	gater, _ := conngater.NewBasicConnectionGater(nil)
	ex.peerTracker = &peerTracker{host: hst, connGater: gater, trackedPeers: map[peer.ID]*peerStat{p0: {peerID: p0, peerScore: 1}}, disconnectedPeers: map[peer.ID]*peerStat{}}
	return chain, st, hst, ex
}

// ZzC18Wire: Head, Get, GetByHeight and GetRangeByHeight return the server's data unchanged through
// the wire encoding (one honest server holding heights tail..head of the chain).
func ZzC18Wire() {
	const N = 8
	tail := 1 + zz.Choice("tail", 2)
	head := 5 + zz.Choice("head", 3)
	chain, _, hst, ex := zzWireSetup(N, tail, head)
	ctx := context.Background()
	switch zz.Choice("call", 4) {
	case 0:
		h, err := ex.Head(ctx)
		zz.Reach("head")
		zz.Assert(err == nil && zzSameHeader(h, chain[head-1]), "Head returns the server's head unchanged")
	case 1:
		k := 1 + zz.Choice("height", N)
		h, err := ex.GetByHeight(ctx, uint64(k))
		zz.Reach("by-height")
		if k >= tail && k <= head {
			zz.Assert(err == nil && zzSameHeader(h, chain[k-1]), "GetByHeight returns the server's header unchanged")
		} else {
			zz.Assert(err != nil && h == nil, "a height the server does not hold is an error")
		}
	case 2:
		k := 1 + zz.Choice("height", N)
		h, err := ex.Get(ctx, chain[k-1].Hash())
		zz.Reach("by-hash")
		if k >= tail && k <= head {
			zz.Assert(err == nil && zzSameHeader(h, chain[k-1]) && bytes.Equal(h.Hash(), chain[k-1].Hash()), "Get returns the server's header unchanged")
		} else {
			zz.Assert(err != nil && h == nil, "a hash the server does not hold is an error")
		}
	default:
		ex.Params.MaxHeadersPerRangeRequest = uint64(1 + zz.Choice("chunk", 3))
		if zz.Bool("silent.peer") {
			// a second, better scored peer accepts every stream and never answers: the request timeout
			// must free its chunk for the honest server
			sp := peer.ID("silent0")
			hst.silent = map[peer.ID]bool{sp: true}
			hst.servers[sp] = nil
			ex.peerTracker.trackedPeers[sp] = &peerStat{peerID: sp, peerScore: 9}
			zz.Reach("silent-peer")
		}
		from := chain[tail-1]
		ln := 1 + zz.Choice("len", head-tail)
		rctx, cancel := context.WithTimeout(ctx, time.Minute)
		defer cancel()
		hs, err := ex.GetRangeByHeight(rctx, from, from.H+1+uint64(ln))
		zz.Reach("range")
		zz.Assert(err == nil && len(hs) == ln, "GetRangeByHeight returns the requested range through the wire")
		zz.Assert(rctx.Err() == nil, "the request completes without waiting for the caller's deadline")
		for i, h := range hs {
			zz.Assert(zzSameHeader(h, chain[tail+i]), "range headers arrive unchanged and in order")
		}
	}
}

// ZzC05Wire: a Byzantine server appends one more genuine response frame than it was asked for.
func ZzC05Wire() {
	const N = 8
	chain, _, hst, ex := zzWireSetup(N, 1, N)
	hst.extra = func(peer.ID) []byte {
		if !zz.Bool("extra.frame") {
			return nil
		}
		k := zz.Choice("extra.height", N)
		body, _ := chain[k].MarshalBinary()
		r := &p2p_pb.HeaderResponse{Body: body, StatusCode: p2p_pb.StatusCode_OK}
		buf := make([]byte, r.Size()+10)
		n, _ := serde.Marshal(r, buf)
		return buf[:n]
	}
	ex.Params.MaxHeadersPerRangeRequest = uint64(1 + zz.Choice("chunk", 3))
	from := chain[0]
	ln := 1 + zz.Choice("len", 4)
	to := from.H + 1 + uint64(ln)
	rctx, cancel := context.WithTimeout(context.Background(), time.Minute)
	defer cancel()
	hs, err := ex.GetRangeByHeight(rctx, from, to)
	zz.Reach("range")
	if err != nil {
		zz.Reach("error")
		return
	}
	zz.Assert(len(hs) > 0, "a nil error comes with a non-empty result")
	for i, h := range hs {
		zz.Assert(h.H == from.H+1+uint64(i) && h.H < to && zzSameHeader(h, chain[h.H-1]), "heights are exactly from+1, from+2, ... below to, headers genuine")
	}
}
