package p2p

// Harness for C18: with honest peers the Exchange returns the full range however it is split.
// The peers' answers are produced by the real ExchangeServer code over per-peer stores.

import (
	"context"
	"errors"
	"time"

	header "github.com/celestiaorg/go-header"
	zh "github.com/celestiaorg/go-header/internal/zzhdr"
	zz "github.com/celestiaorg/go-header/internal/zzverif"
	p2p_pb "github.com/celestiaorg/go-header/p2p/pb"
)

// zzPrefixStore: a peer's store holding the canonical chain up to height avail.
type zzPrefixStore struct {
	header.Store[*zh.Hdr]
	chain []*zh.Hdr
	avail int
}

func (s *zzPrefixStore) Head(context.Context, ...header.HeadOption[*zh.Hdr]) (*zh.Hdr, error) {
	if s.avail == 0 {
		return nil, header.ErrEmptyStore
	}
	return s.chain[s.avail-1], nil
}
func (s *zzPrefixStore) HasAt(_ context.Context, h uint64) bool { return h >= 1 && int(h) <= s.avail }
func (s *zzPrefixStore) GetRange(_ context.Context, from, to uint64) ([]*zh.Hdr, error) {
	if from < 1 || from >= to || int(to-1) > s.avail {
		return nil, header.ErrNotFound
	}
	return s.chain[from-1 : to-1], nil
}

// ZzC18: honest peers with partial availability and benign faults; at least one fault-free peer holds everything.
func ZzC18() {
	N := zz.Param("N", 7)
	P := 1 + zz.Choice("peers", zz.Param("P", 2))
	chunks := []int{1, 2, 3, 5, 64}
	chunk := chunks[zz.Choice("chunk", zz.Param("CHUNKS", 3))]
	if zz.Param("BIGCHUNK", 0) == 1 {
		chunk = 64 // the whole range fits into one initial request
	}
	env := zzNewRangeEnv(N, P, chunk)
	from := env.chain[0]
	maxLen := 3 * chunk
	if maxLen > N-1 {
		maxLen = N - 1
	}
	ln := 1 + zz.Choice("len", maxLen) // 1 .. 3 x chunk headers
	to := from.H + 1 + uint64(ln)

	type peerCfg struct {
		serv    *ExchangeServer[*zh.Hdr]
		avail   int
		fault   int // 0 none, 1 answers only a prefix once, 2 times out once, 3 disconnects (errors from its 2nd request on), 4 sends a prefix and then stalls past the request timeout (once)
		calls   int
		tripped bool
	}
	cfgs := make([]*peerCfg, P)
	capable := false
	for i := range cfgs {
		c := &peerCfg{avail: zz.Choice("p"+zzItoa(i)+".avail", N+1), fault: zz.Choice("p"+zzItoa(i)+".fault", 5)}
		c.serv = &ExchangeServer[*zh.Hdr]{store: &zzPrefixStore{chain: env.chain, avail: c.avail}, Params: DefaultServerParameters(), ctx: context.Background()}
		if c.avail >= int(to-1) && c.fault == 0 {
			capable = true
		}
		cfgs[i] = c
	}
	zz.Assume(capable) // together the peers hold the range and one of them is fault-free

	if zz.Param("LOWSCORES", 0) == 1 && zz.Bool("scores.low") {
		// slow peers: the first one sits at the score a newly connected peer gets (defaultScore), the others below it
		low := []float32{1, 0.5, 0.25, 0.125, 0.0625}
		for i, id := range env.peers {
			env.ex.peerTracker.trackedPeers[id].peerScore = low[i]
		}
		zz.Reach("low-scores")
	}
	// bounded progress: every request either yields headers, hits one of the (at most one per peer) faults or is
	// a NOT_FOUND that costs the asked peer 20% of its score, so a peer lacking the range is outranked by a
	// capable one after a bounded number of rounds. A capable fault-free peer never loses score; scores here
	// stay below 10*(N-1) <= 640 and a capable peer's above 1/16, so a lacking peer is asked at most
	// log(640*16)/log(1.25) < 42 times in vain; the catalogue has at most 3 such peers in the tiers run.
	maxReqs := zz.Param("MAXREQS", 200)
	env.behaveCtx = func(rctx context.Context, p int, origin, amount uint64, nth int) ([]*p2p_pb.HeaderResponse, error) {
		c := cfgs[p]
		c.calls++
		if env.reqs > maxReqs {
			zz.Reach("no-progress")
			zz.Assert(false, "GetRangeByHeight keeps re-asking peers without progress although a capable honest peer is available")
			<-rctx.Done()
			return nil, rctx.Err()
		}
		switch {
		case c.fault == 2 && !c.tripped:
			c.tripped = true
			return nil, zzErrNet5 // one timeout
		case c.fault == 3 && c.calls > 1:
			return nil, zzErrNet5 // gone
		}
		// exactly what the real server answers (handleRangeRequest + requestHandler's status mapping)
		hs, err := c.serv.handleRangeRequest(context.Background(), origin, origin+amount)
		switch {
		case err == nil:
		case errors.Is(err, header.ErrNotFound):
			return []*p2p_pb.HeaderResponse{{StatusCode: p2p_pb.StatusCode_NOT_FOUND}}, nil
		default:
			return nil, zzErrNet5 // stream reset
		}
		stall := false
		if (c.fault == 1 || c.fault == 4) && !c.tripped && len(hs) > 1 {
			c.tripped = true
			hs = hs[:1+zz.Choice("prefix", len(hs)-1)] // answers only a prefix
			stall = c.fault == 4
		}
		var out []*p2p_pb.HeaderResponse
		for _, h := range hs {
			out = append(out, zzResp(h))
		}
		if stall {
			// the rest never comes: the stream read fails when the request deadline passes, and
			// sendMessage hands back what it has read so far together with that error
			<-rctx.Done()
			return out, rctx.Err()
		}
		return out, nil
	}
	ctx, cancel := context.WithTimeout(context.Background(), time.Minute)
	defer cancel()
	res, err := env.ex.GetRangeByHeight(ctx, from, to)
	zz.ObserveBool("err_nil", err == nil)
	zz.Observe("len", uint64(len(res)))
	zz.Reach("done")
	zz.Assert(err == nil, "honest peers that together hold the range: the request succeeds")
	zz.Assert(ctx.Err() == nil, "the request completes without waiting for the caller's deadline")
	if err != nil {
		return
	}
	zz.Assert(len(res) == ln, "exactly the headers from+1 .. to-1 are returned")
	for i, h := range res {
		zz.Assert(h.H == from.H+1+uint64(i) && h.ID == int(h.H), "the headers from+1 .. to-1 in ascending order")
	}
}
