package store

// Harness for C17: concurrent Store use keeps Head monotone and readers never see torn state.

import (
	"bytes"
	"context"

	zh "github.com/celestiaorg/go-header/internal/zzhdr"
	zz "github.com/celestiaorg/go-header/internal/zzverif"
)

// ZzC17 runs two writers, one reader and (optionally) one tail-side deleter against the real Store.
func ZzC17() {
	ctx := context.Background()
	K := zz.Param("K", 4)
	withDeleter := zz.Param("DELETER", 0) == 1
	cfgIdx := []int{4, 5, 2, 0} // large caches first: batch 1 / plain, batch 64 / context-aware, ...
	cfg := zzCfgsQuick[cfgIdx[zz.Choice("cfg", zz.Param("CFGS", 4))]]
	d := zzNewMemDS()
	s := zzOpen(d, cfg)
	// DELN: how many headers the deleter removes from the tail; DELN+1 headers are there from the start
	// (flushed), so that the tail-side deletion is possible. The writers' headers follow.
	N0 := 1 + zz.Param("DELN", 1)
	chain := zzChain(cfg.base, K+N0)
	zz.Assert(s.Append(ctx, chain[:N0]...) == nil, "Append ok")
	zz.Assert(s.Sync(ctx) == nil, "Sync ok")
	d.gates = true
	d.gatesAfter = zz.Param("POSTGATES", 0) == 1 // a second scheduling point after each datastore read

	// the writers' runs: sub-runs of chain[2..K+1], disjoint or overlapping
	type run struct{ i, j int }
	pick := func(name string) run {
		i := N0 + zz.Choice(name+".i", K)
		j := i + zz.Choice(name+".len", K+N0-i)
		return run{i, j}
	}
	runs := []run{pick("w0"), pick("w1")}
	if zz.Param("WRITERS", 2) == 1 {
		runs = runs[:1]
	}
	finished := 0
	for w := range runs {
		r := runs[w]
		w := w
		go func() {
			zz.Gate("w" + zzItoa(w) + ":append")
			zz.Assert(s.Append(ctx, chain[r.i:r.j+1]...) == nil, "Append ok")
			zz.Gate("w" + zzItoa(w) + ":sync")
			zz.Assert(s.Sync(ctx) == nil, "Sync ok")
			// every header whose Append has been followed by Sync is readable
			for k := r.i; k <= r.j; k++ {
				g, err := s.Get(ctx, chain[k].Hash())
				zz.Assert(err == nil && g != nil && g.H == chain[k].H, "a header whose Append was followed by Sync must be readable")
			}
			finished++
		}()
	}
	deleted := false
	delWhole := withDeleter && zz.Param("DELWHOLE", 1) == 1 && zz.Bool("deleter.whole")
	if withDeleter {
		go func() {
			zz.Gate("deleter:start")
			to := chain[N0-1].H // removes everything but the newest of the initial headers
			if delWhole {
				// everything that was stored when the deleter looked: races with the appends at the head
				to = chain[N0-1].H + 1
			}
			err := s.DeleteRange(zzTagged(ctx, "del"), chain[0].H, to)
			zz.Assert(err == nil, "tail-side DeleteRange succeeds while writers append at the head")
			deleted = err == nil
			finished++
		}()
	}
	// the reader (this thread)
	lastHead, lastHeight := uint64(0), uint64(0)
	nobs := zz.Param("OBS", 2)
	for o := 0; o < nobs; o++ {
		zz.Gate("reader:obs")
		head, err := s.Head(ctx)
		if delWhole && err != nil {
			continue // the deleter may legitimately have emptied the store for a moment
		}
		zz.Assert(err == nil, "Head of an initialised store")
		if err != nil {
			break
		}
		h := s.Height()
		zz.Assert(head.H >= lastHead, "Head().Height() never decreases")
		zz.Assert(h >= lastHeight, "Height() never decreases")
		lastHead, lastHeight = head.H, h
		if !delWhole { // a deletion that removes the head itself necessarily races with readers of that head
			g, err := s.GetByHeight(ctx, head.H)
			zz.Assert(err == nil && g != nil && g.H == head.H, "the header returned by Head() is retrievable by height")
			g2, err := s.Get(ctx, head.Hash())
			zz.Assert(err == nil && g2 != nil && bytes.Equal(g2.Hash(), head.Hash()), "the header returned by Head() is retrievable by hash")
		}
		if withDeleter && N0 > 2 {
			// a read of the last header of the range being deleted: it may or may not be there any more,
			// but the read must not bring it back
			_, _ = s.GetByHeight(ctx, chain[N0-2].H)
			_, _ = s.Get(ctx, chain[N0-2].Hash())
		}
		zz.Reach("observed")
	}
	zz.Quiesce()
	want := len(runs)
	if withDeleter {
		want++
	}
	zz.Assert(finished == want, "all writers (and the deleter) finish")
	d.gates = false
	zz.Assert(s.Sync(ctx) == nil, "Sync ok")

	// reference: a sequential execution of the same appends on a second store
	d2 := zzNewMemDS()
	s2 := zzOpen(d2, cfg)
	zz.Assert(s2.Append(ctx, chain[:N0]...) == nil, "Append ok")
	for _, r := range runs {
		zz.Assert(s2.Append(ctx, chain[r.i:r.j+1]...) == nil, "Append ok")
	}
	zz.Assert(s2.Sync(ctx) == nil, "Sync ok")
	h1, e1 := s.Head(ctx)
	h2, e2 := s2.Head(ctx)
	if !delWhole {
		zz.Assert(e1 == nil && e2 == nil && h1.H == h2.H, "after all writers finish Head equals that of a sequential execution")
		for k := N0; k < K+N0; k++ {
			_, ea := s.Get(ctx, chain[k].Hash())
			_, eb := s2.Get(ctx, chain[k].Hash())
			zz.Assert((ea == nil) == (eb == nil), "after all writers finish the stored headers equal those of a sequential execution")
		}
	}
	if deleted && delWhole {
		zz.Reach("deleted-whole")
		// whatever the interleaving: the initial headers are gone and what remains is one gap-free run
		for k := 0; k < N0; k++ {
			_, ea := s.Get(ctx, chain[k].Hash())
			zz.Assert(ea != nil, "the deleted headers are gone")
		}
		tail, et := s.Tail(ctx)
		head, eh := s.Head(ctx)
		if et == nil && eh == nil {
			for hh := tail.H; hh <= head.H; hh++ {
				g, err := s.GetByHeight(ctx, hh)
				zz.Assert(err == nil && g != nil && g.H == hh, "a tail-side DeleteRange racing with appends leaves a gap-free chain")
			}
		}
	} else if deleted {
		zz.Reach("deleted")
		tail, err := s.Tail(ctx)
		zz.Assert(err == nil && tail.H == chain[N0-1].H, "Tail moved to the next header")
		if err == nil && e1 == nil {
			for hh := tail.H; hh <= h1.H; hh++ {
				g, err := s.GetByHeight(ctx, hh)
				zz.Assert(err == nil && g != nil && g.H == hh, "a tail-side DeleteRange racing with appends leaves a gap-free chain")
			}
		}
		for k := 0; k < N0-1; k++ {
			_, err = s.Get(ctx, chain[k].Hash())
			zz.Assert(err != nil, "the deleted tail header is gone")
			_, err = s.GetByHeight(ctx, chain[k].H)
			zz.Assert(err != nil, "the deleted tail header is gone")
		}
	} else {
		t1, e3 := s.Tail(ctx)
		t2, e4 := s2.Tail(ctx)
		zz.Assert(e3 == nil && e4 == nil && t1.H == t2.H, "after all writers finish Tail equals that of a sequential execution")
	}
	zz.Assert(s.Stop(ctx) == nil, "Stop ok")
	zz.Assert(s2.Stop(ctx) == nil, "Stop ok")
	var _ *zh.Hdr
}
