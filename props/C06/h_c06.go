package store

// Harness for C06: the Store survives restart and crash without loss or dangling head/tail pointers.

import (
	"context"

	zh "github.com/celestiaorg/go-header/internal/zzhdr"
	zz "github.com/celestiaorg/go-header/internal/zzverif"
)

type zzView struct {
	head, tail uint64 // 0: absent
	byHeight   []bool
	byHash     []bool
}

func zzObserve(ctx context.Context, s *Store[*zh.Hdr], chain []*zh.Hdr) zzView {
	v := zzView{byHeight: make([]bool, len(chain)), byHash: make([]bool, len(chain))}
	if h, err := s.Head(ctx); err == nil {
		v.head = h.H
	}
	if t, err := s.Tail(ctx); err == nil {
		v.tail = t.H
	}
	for i, h := range chain {
		v.byHeight[i], v.byHash[i], _ = zzReadable(ctx, s, h)
	}
	return v
}

// zzHistory applies L operations (append of a sub-run, sync, deletion of one header at either end) and
// returns them so that the same history can be applied to a reference store.
// zzHeadSideDeletes: commit-log index ranges [before, after) of the head-side deletions of two headers
// performed on the main store (used for the known-finding class of the crash unit).
var zzHeadSideDeletes [][2]int

func zzHistory(ctx context.Context, s *Store[*zh.Hdr], chain []*zh.Hdr, K, L int, d *zzMemDS, faults bool) []func(*Store[*zh.Hdr]) {
	var ops []func(*Store[*zh.Hdr])
	main := s
	zzHeadSideDeletes = nil
	for op := 0; op < L; op++ {
		if faults && zz.Bool("fault.here") {
			// a window of 1..3 consecutive failing writes starting with the next write attempt
			d.failFrom = d.writes + 1
			d.failN = 1 + zz.Choice("fault.n", 3)
			zz.Reach("faults-armed")
		}
		var f func(*Store[*zh.Hdr])
		switch zz.Choice("op", 3+zz.Param("EMPTYAPPEND", 0)) {
		case 3:
			// an Append of nothing (a caller handing over an empty or nil batch) is harmless
			f = func(s *Store[*zh.Hdr]) {
				var none []*zh.Hdr
				zz.Assert(s.Append(ctx, none...) == nil, "Append of no headers is accepted")
				zz.Reach("empty-append")
			}
		case 0:
			i := zz.Choice("app.i", K)
			j := i + zz.Choice("app.len", K-i)
			f = func(s *Store[*zh.Hdr]) {
				zz.Assert(s.Append(ctx, chain[i:j+1]...) == nil, "Append accepts chain headers")
			}
		case 1:
			f = func(s *Store[*zh.Hdr]) { zz.Assert(s.Sync(ctx) == nil, "Sync succeeds") }
		case 2:
			tailSide := zz.Bool("del.tailside")
			n := uint64(1 + zz.Choice("del.n", 2)) // one or two headers
			f = func(s *Store[*zh.Hdr]) {
				zz.Assert(s.Sync(ctx) == nil, "Sync succeeds")
				head, e1 := s.Head(ctx)
				tail, e2 := s.Tail(ctx)
				if e1 != nil || e2 != nil {
					return
				}
				if head.H-tail.H+1 < n {
					return
				}
				if tailSide {
					_ = s.DeleteRange(ctx, tail.H, tail.H+n) // may fail part-way when a write fault is armed
				} else {
					before := len(d.log)
					_ = s.DeleteRange(ctx, head.H+1-n, head.H+1)
					if n > 1 {
						zz.Reach("delete-head-side-2")
						if s == main {
							zzHeadSideDeletes = append(zzHeadSideDeletes, [2]int{before, len(d.log)})
						}
					}
				}
				zz.Reach("delete")
			}
		}
		f(s)
		ops = append(ops, f)
	}
	return ops
}

// zzCheckReopened: the C06 oracle for a store reopened on surviving data.
func zzCheckReopened(ctx context.Context, s2 *Store[*zh.Hdr], d2 *zzMemDS, chain []*zh.Hdr, K int, cfg zzCfg) {
	head, eh := s2.Head(ctx)
	tail, et := s2.Tail(ctx)
	if eh == nil {
		bh, bx, _ := zzReadable(ctx, s2, head)
		zz.Assert(bh && bx, "Head resolves to a stored header")
	}
	if et == nil {
		bh, bx, _ := zzReadable(ctx, s2, tail)
		zz.Assert(bh && bx, "Tail resolves to a stored header")
	}
	if eh == nil && et == nil {
		zz.Reach("head-and-tail")
		zz.Assert(tail.H <= head.H, "Tail <= Head")
		for hh := tail.H; hh <= head.H; hh++ {
			g, err := s2.GetByHeight(ctx, hh)
			zz.Assert(err == nil && g != nil && g.H == hh, "every height between Tail and Head is retrievable")
		}
	}
	// every header of a committed batch that was not deleted afterwards is retrievable
	for i := 0; i < K; i++ {
		a, b := zzOnDisk(ctx, s2, chain[i])
		if a && b {
			bh, bx, _ := zzReadable(ctx, s2, chain[i])
			zz.Assert(bh && bx, "a committed header that was not deleted is retrievable after reopening")
		}
	}
	// appending the continuation of the chain makes Head advance to the new tip
	from := 0
	if eh == nil {
		from = int(head.H-cfg.base) + 1
	}
	if from < len(chain) {
		zz.Assert(s2.Append(ctx, chain[from:]...) == nil, "Append accepts the continuation")
		zz.Assert(s2.Sync(ctx) == nil, "Sync succeeds")
		nh, err := s2.Head(ctx)
		zz.Assert(err == nil && nh.H == chain[len(chain)-1].H, "appending the continuation makes Head advance to the new tip")
		zz.Reach("continued")
	}
}

// ZzC06: MODE 0 clean restart, 1 crash at every prefix of the commit log, 2 transient write failures.
func ZzC06() {
	ctx := context.Background()
	K := zz.Param("K", 3)
	L := zz.Param("L", 2)
	mode := zz.Param("MODE", 0)
	cfg := zzPickCfg()
	d := zzNewMemDS()
	s := zzOpen(d, cfg)
	chain := zzChain(cfg.base, K+1) // the last header is only used as continuation
	pre := zz.Choice("prelude", K)
	if pre > 0 {
		zz.Assert(s.Append(ctx, chain[:pre]...) == nil, "Append accepts chain headers")
		zz.Assert(s.Stop(ctx) == nil, "Stop succeeds")
		s = zzOpen(d, cfg)
	}
	ops := zzHistory(ctx, s, chain, K, L, d, mode == 2)

	switch mode {
	case 0:
		// everything whose Append returned before Stop must be there afterwards, with the same Head and Tail.
		// Stop follows the last operation directly (no Sync in between); the expectation comes from a
		// reference store that ran the same history and was synced before stopping.
		zz.Assert(s.Stop(ctx) == nil, "Stop succeeds")
		s2 := zzOpen(d, cfg)
		after := zzObserve(ctx, s2, chain)
		dr := zzNewMemDS()
		sr := zzOpen(dr, cfg)
		if pre > 0 {
			zz.Assert(sr.Append(ctx, chain[:pre]...) == nil, "Append accepts chain headers")
			zz.Assert(sr.Stop(ctx) == nil, "Stop succeeds")
			sr = zzOpen(dr, cfg)
		}
		for _, f := range ops {
			f(sr)
		}
		zz.Assert(sr.Sync(ctx) == nil, "Sync succeeds")
		before := zzObserve(ctx, sr, chain)
		zz.Assert(sr.Stop(ctx) == nil, "Stop succeeds")
		zz.Reach("restarted")
		zz.Assert(before.head == after.head, "same Head after a clean restart, including everything whose Append returned before Stop")
		zz.Assert(before.tail == after.tail, "same Tail after a clean restart")
		for i := range chain {
			zz.Assert(before.byHeight[i] == after.byHeight[i] && before.byHash[i] == after.byHash[i], "same headers after a clean restart")
		}
		zzCheckReopened(ctx, s2, d, chain, K, cfg)
		zz.Assert(s2.Stop(ctx) == nil, "Stop succeeds")
	case 1:
		// crash: the datastore keeps an arbitrary prefix of the commit log (each entry atomic)
		k := zz.Choice("crash.at", len(d.log)+1)
		d2 := zzImage(d.log, k)
		// known finding: on a datastore that ignores the context's write batch the per-key deletes of a
		// head-side DeleteRange are separate writes, lowest height first, with the head pointer moved last
		inside := false
		for _, r := range zzHeadSideDeletes {
			if k > r[0] && k < r[1] {
				inside = true
			}
		}
		if zz.Known("C06-crash-inside-head-side-delete-plain-ds", cfg.flavour == 0 && inside) {
			zz.Reach("crash-inside-head-side-delete")
		}
		s2, err := NewStore[*zh.Hdr](zzWrapDS(d2, cfg.flavour), WithWriteBatchSize(cfg.batch), WithStoreCacheSize(cfg.cache), WithIndexCacheSize(cfg.cache))
		zz.Assert(err == nil, "NewStore succeeds")
		zz.Reach("crashed")
		if k < len(d.log) {
			zz.Reach("crashed-mid-log")
		}
		zz.Assert(s2.Start(ctx) == nil, "a Store reopened on the surviving data starts without error")
		zzCheckReopened(ctx, s2, d2, chain, K, cfg)
		zz.Assert(s2.Stop(ctx) == nil, "Stop succeeds")
	case 2:
		// transient failures are over: flush what is pending, restart
		d.failFrom = 0
		zz.Assert(s.Sync(ctx) == nil, "Sync succeeds")
		zz.Assert(s.Stop(ctx) == nil, "Stop succeeds")
		s2, err := NewStore[*zh.Hdr](zzWrapDS(d, cfg.flavour), WithWriteBatchSize(cfg.batch), WithStoreCacheSize(cfg.cache), WithIndexCacheSize(cfg.cache))
		zz.Assert(err == nil, "NewStore succeeds")
		zz.Reach("after-faults")
		zz.Assert(s2.Start(ctx) == nil, "a Store reopened after transient write failures starts without error")
		zzCheckReopened(ctx, s2, d, chain, K, cfg)
		zz.Assert(s2.Stop(ctx) == nil, "Stop succeeds")
	}
}
