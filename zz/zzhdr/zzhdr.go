// Package zzhdr is the header type shared by the sync, store and p2p harnesses.
// Every observable the generic code can query is a plain field the harness sets (symbolic or
// concrete); the type-level Verify / Validate / UnmarshalBinary outcomes are supplied by hooks.
package zzhdr

import (
	"errors"
	"time"

	header "github.com/celestiaorg/go-header"
)

type Hdr struct {
	Chain string
	H     uint64
	T     time.Time
	ID    int // identity: Hash() is derived from it
	Prev  int // identity of the previous header (LastHeader)
}

var (
	// VerifyFn is the type-level verdict; nil means "accept".
	VerifyFn func(t, u *Hdr) error
	// ValidateFn is the stateless validation verdict; nil means "valid".
	ValidateFn func(h *Hdr) error
	// HeightHook, if set, runs on every Height() call (used as an optional scheduling point).
	HeightHook func(h *Hdr)
	// UnmarshalFn may veto or panic during decoding; nil means "decode".
	UnmarshalFn func(b []byte) error

	ErrShort = errors.New("zzhdr: short buffer")
)

func HashOf(id int) header.Hash { return header.Hash{0xA0, byte(id >> 8), byte(id)} }

func (h *Hdr) New() *Hdr         { return new(Hdr) }
func (h *Hdr) IsZero() bool      { return h == nil }
func (h *Hdr) ChainID() string   { return h.Chain }
func (h *Hdr) Hash() header.Hash { return HashOf(h.ID) }
func (h *Hdr) Height() uint64 {
	if HeightHook != nil {
		HeightHook(h)
	}
	return h.H
}
func (h *Hdr) LastHeader() header.Hash {
	return HashOf(h.Prev)
}
func (h *Hdr) Time() time.Time { return h.T }
func (h *Hdr) Verify(u *Hdr) error {
	if VerifyFn == nil {
		return nil
	}
	return VerifyFn(h, u)
}
func (h *Hdr) Validate() error {
	if ValidateFn == nil {
		return nil
	}
	return ValidateFn(h)
}

// MarshalBinary: id(2) prev(2) height(8) unixnano(8) chain bytes.
func (h *Hdr) MarshalBinary() ([]byte, error) {
	b := make([]byte, 20, 20+len(h.Chain))
	b[0], b[1] = byte(h.ID>>8), byte(h.ID)
	b[2], b[3] = byte(h.Prev>>8), byte(h.Prev)
	put64(b[4:], h.H)
	put64(b[12:], uint64(h.T.UnixNano()))
	return append(b, h.Chain...), nil
}

func (h *Hdr) UnmarshalBinary(b []byte) error {
	if UnmarshalFn != nil {
		if err := UnmarshalFn(b); err != nil {
			return err
		}
	}
	if len(b) < 20 {
		return ErrShort
	}
	h.ID = int(b[0])<<8 | int(b[1])
	h.Prev = int(b[2])<<8 | int(b[3])
	h.H = get64(b[4:])
	h.T = time.Unix(0, int64(get64(b[12:])))
	h.Chain = string(b[20:])
	return nil
}

func put64(b []byte, v uint64) {
	for i := 0; i < 8; i++ {
		b[i] = byte(v >> (56 - 8*uint(i)))
	}
}

func get64(b []byte) uint64 {
	var v uint64
	for i := 0; i < 8; i++ {
		v = v<<8 | uint64(b[i])
	}
	return v
}
