package PKG

// Storage environment shared by the store-package harnesses: a map-backed datastore with a commit
// log, fault injection and (optional) scheduling gates, in two flavours (plain / context-aware with
// write batches and read transactions). Ordinary Go: executed by the engine and natively for replay.

import (
	"context"
	"errors"
	"sync"

	"github.com/ipfs/go-datastore"
	contextds "github.com/ipfs/go-datastore/context"
	"github.com/ipfs/go-datastore/query"

	zh "github.com/celestiaorg/go-header/internal/zzhdr"
	zz "github.com/celestiaorg/go-header/internal/zzverif"
)

type zzOp struct {
	key string
	val []byte
	del bool
}

// zzMemDS is the datastore contract: every direct Put/Delete and every Batch.Commit is atomic and is
// recorded as one entry of the commit log.
type zzMemDS struct {
	mu         sync.Mutex // a datastore is safe for concurrent use: natively the parallel deleter's workers call it at once
	m          map[string][]byte
	log        [][]zzOp
	writes     int // direct writes and commits attempted
	failFrom   int // the failFrom-th .. (failFrom+failN-1)-th write attempts fail (1-based); 0 = never
	failN      int
	gates      bool
	gatesAfter bool
	reads      int
	// failedTaggedCommit: a batch commit made on behalf of a tagged caller (see zzTagKey) hit an injected fault
	failedTaggedCommit string
}

var zzErrWrite = errors.New("zz: datastore write failure")

func zzNewMemDS() *zzMemDS { return &zzMemDS{m: map[string][]byte{}} }

// zzImage rebuilds the datastore contents after the first k entries of a commit log (crash image).
func zzImage(log [][]zzOp, k int) *zzMemDS {
	d := zzNewMemDS()
	for _, e := range log[:k] {
		for _, op := range e {
			if op.del {
				delete(d.m, op.key)
			} else {
				d.m[op.key] = op.val
			}
		}
	}
	return d
}

// zzTagKey: a harness may tag the context of a caller ("r0", "del", ...); the tag becomes part of the gate
// labels of the datastore operations made on its behalf, so that two goroutines reading the same key are
// told apart by the native replay coordinator.
type zzTagKey struct{}

func zzTagged(ctx context.Context, tag string) context.Context {
	return context.WithValue(ctx, zzTagKey{}, tag)
}

func (d *zzMemDS) gate(ctx context.Context, what string) {
	if d.gates {
		if ctx != nil {
			if tag, ok := ctx.Value(zzTagKey{}).(string); ok {
				what = tag + ":" + what
			}
		}
		zz.Gate(what)
	}
}

func (d *zzMemDS) failNow() bool {
	d.mu.Lock()
	defer d.mu.Unlock()
	d.writes++
	return d.failFrom > 0 && d.writes >= d.failFrom && d.writes < d.failFrom+d.failN
}

func (d *zzMemDS) apply(ops []zzOp) {
	d.mu.Lock()
	defer d.mu.Unlock()
	for _, op := range ops {
		if op.del {
			delete(d.m, op.key)
		} else {
			d.m[op.key] = op.val
		}
	}
	d.log = append(d.log, ops)
}

func (d *zzMemDS) Get(ctx context.Context, k datastore.Key) ([]byte, error) {
	d.gate(ctx, "ds.get:"+k.String())
	d.mu.Lock()
	d.reads++
	v, ok := d.m[k.String()]
	d.mu.Unlock()
	if d.gatesAfter {
		// a second scheduling point between the read and the caller seeing its result
		d.gate(ctx, "ds.got:"+k.String())
	}
	if !ok {
		return nil, datastore.ErrNotFound
	}
	return v, nil
}

func (d *zzMemDS) Has(ctx context.Context, k datastore.Key) (bool, error) {
	d.gate(ctx, "ds.has:"+k.String())
	d.mu.Lock()
	_, ok := d.m[k.String()]
	d.mu.Unlock()
	return ok, nil
}

func (d *zzMemDS) GetSize(_ context.Context, k datastore.Key) (int, error) {
	d.mu.Lock()
	v, ok := d.m[k.String()]
	d.mu.Unlock()
	if !ok {
		return -1, datastore.ErrNotFound
	}
	return len(v), nil
}

func (d *zzMemDS) Query(context.Context, query.Query) (query.Results, error) {
	return nil, errors.New("zz: query unsupported")
}

func (d *zzMemDS) Put(ctx context.Context, k datastore.Key, v []byte) error {
	d.gate(ctx, "ds.put:"+k.String())
	if d.failNow() {
		return zzErrWrite
	}
	d.apply([]zzOp{{key: k.String(), val: v}})
	return nil
}

func (d *zzMemDS) Delete(ctx context.Context, k datastore.Key) error {
	d.gate(ctx, "ds.delete:"+k.String())
	if d.failNow() {
		return zzErrWrite
	}
	d.apply([]zzOp{{key: k.String(), del: true}})
	return nil
}

func (d *zzMemDS) Sync(context.Context, datastore.Key) error { return nil }
func (d *zzMemDS) Close() error                              { return nil }

func (d *zzMemDS) Batch(context.Context) (datastore.Batch, error) { return &zzBatch{d: d}, nil }

type zzBatch struct {
	d   *zzMemDS
	ops []zzOp
}

func (b *zzBatch) Put(_ context.Context, k datastore.Key, v []byte) error {
	b.ops = append(b.ops, zzOp{key: k.String(), val: v})
	return nil
}

func (b *zzBatch) Delete(_ context.Context, k datastore.Key) error {
	b.ops = append(b.ops, zzOp{key: k.String(), del: true})
	return nil
}

func (b *zzBatch) Commit(ctx context.Context) error {
	b.d.gate(ctx, "ds.commit:"+zzItoa(len(b.ops))) // the size tells the flush loop's commit from a deleter's (often empty) one
	if len(b.ops) == 0 {
		return nil
	}
	if b.d.failNow() {
		if ctx != nil {
			if tag, ok := ctx.Value(zzTagKey{}).(string); ok {
				b.d.failedTaggedCommit = tag
			}
		}
		return zzErrWrite
	}
	b.d.apply(b.ops)
	b.ops = nil
	return nil
}

// zzTxnDS adds read transactions (snapshot reads) on top of zzMemDS.
type zzTxnDS struct{ *zzMemDS }

func (d zzTxnDS) NewTransaction(_ context.Context, readOnly bool) (datastore.Txn, error) {
	snap := map[string][]byte{}
	d.mu.Lock()
	for k, v := range d.m {
		snap[k] = v
	}
	d.mu.Unlock()
	return &zzTxn{d: d.zzMemDS, snap: snap}, nil
}

type zzTxn struct {
	d    *zzMemDS
	snap map[string][]byte
	ops  []zzOp
}

func (t *zzTxn) Get(ctx context.Context, k datastore.Key) ([]byte, error) {
	t.d.gate(ctx, "txn.get:"+k.String())
	v, ok := t.snap[k.String()]
	if !ok {
		return nil, datastore.ErrNotFound
	}
	return v, nil
}
func (t *zzTxn) Has(_ context.Context, k datastore.Key) (bool, error) {
	_, ok := t.snap[k.String()]
	return ok, nil
}
func (t *zzTxn) GetSize(_ context.Context, k datastore.Key) (int, error) {
	v, ok := t.snap[k.String()]
	if !ok {
		return -1, datastore.ErrNotFound
	}
	return len(v), nil
}
func (t *zzTxn) Query(context.Context, query.Query) (query.Results, error) {
	return nil, errors.New("zz: query unsupported")
}
func (t *zzTxn) Put(_ context.Context, k datastore.Key, v []byte) error {
	t.ops = append(t.ops, zzOp{key: k.String(), val: v})
	return nil
}
func (t *zzTxn) Delete(_ context.Context, k datastore.Key) error {
	t.ops = append(t.ops, zzOp{key: k.String(), del: true})
	return nil
}
func (t *zzTxn) Commit(context.Context) error {
	if len(t.ops) == 0 {
		return nil
	}
	if t.d.failNow() {
		return zzErrWrite
	}
	t.d.apply(t.ops)
	t.ops = nil
	return nil
}
func (t *zzTxn) Discard(context.Context) {}

// zzWrapDS returns the datastore handed to NewStore: flavour 0 plain, 1 context-aware with batches
// and read transactions (go-datastore's own contextds wrapper, executed as real code).
func zzWrapDS(d *zzMemDS, flavour int) datastore.Batching {
	if flavour == 1 {
		return contextds.WrapDatastore(zzTxnDS{d}).(datastore.Batching)
	}
	return d
}

// zzChain builds K headers base..base+K-1 (identity i+1, linked by Prev).
func zzChain(base uint64, K int) []*zh.Hdr {
	c := make([]*zh.Hdr, K)
	for i := range c {
		c[i] = &zh.Hdr{Chain: "c", H: base + uint64(i), ID: i + 1, Prev: i}
	}
	return c
}

func zzItoa(i int) string {
	if i < 0 {
		return "-" + zzItoa(-i)
	}
	if i < 10 {
		return string(rune('0' + i))
	}
	return zzItoa(i/10) + string(rune('0'+i%10))
}
