package PKG

// Delete scenario shared by C08 and C14: a store holding a K-chain with an arbitrary split between
// flushed and still pending headers, and a (from,to) pair from the catalogue around the chain ends.

import (
	"context"
	"time"

	zh "github.com/celestiaorg/go-header/internal/zzhdr"
	zz "github.com/celestiaorg/go-header/internal/zzverif"
)

type zzDelScenario struct {
	cfg      zzCfg
	d        *zzMemDS
	s        *Store[*zh.Hdr]
	chain    []*zh.Hdr // K stored + 3 continuation headers
	K        int
	split    int // chain[:split] flushed and synced, chain[split:K] appended afterwards (pending unless the batch is full)
	from, to uint64
	tailH    uint64
	headH    uint64
}

func zzBuildDelScenario(ctx context.Context) *zzDelScenario {
	sc := &zzDelScenario{K: zz.Param("K", 4)}
	sc.cfg = zzPickCfg()
	sc.d = zzNewMemDS()
	sc.s = zzOpen(sc.d, sc.cfg)
	sc.chain = zzChain(sc.cfg.base, sc.K+3)
	sc.split = zz.Choice("split", sc.K+1)
	if sc.split > 0 {
		zz.Assert(sc.s.Append(ctx, sc.chain[:sc.split]...) == nil, "Append ok")
		zz.Assert(sc.s.Sync(ctx) == nil, "Sync ok")
		if zz.Bool("restart.before") { // forces everything appended so far onto disk and out of the caches
			zz.Assert(sc.s.Stop(ctx) == nil, "Stop ok")
			sc.s = zzOpen(sc.d, sc.cfg)
		}
	}
	if sc.split < sc.K {
		zz.Assert(sc.s.Append(ctx, sc.chain[sc.split:sc.K]...) == nil, "Append ok")
		zz.Assert(sc.s.Sync(ctx) == nil, "Sync ok")
	}
	if sc.split > 0 && zz.Bool("reappend") {
		// a header that is already on disk is appended once more: it now also sits in the write batch
		j := zz.Choice("reappend.idx", sc.split)
		zz.Assert(sc.s.Append(ctx, sc.chain[j]) == nil, "Append ok")
		zz.Assert(sc.s.Sync(ctx) == nil, "Sync ok")
		zz.Reach("reappended")
	}
	sc.tailH, sc.headH = sc.chain[0].H, sc.chain[sc.K-1].H
	// (from,to): every pair around the chain ends: tail-1 .. head+2
	sc.from = sc.tailH - 1 + uint64(zz.Choice("from", sc.K+3))
	sc.to = sc.tailH - 1 + uint64(zz.Choice("to", sc.K+3))
	return sc
}

// pendingAt reports whether chain[i] sat only in the write batch when the deletion started.
func (sc *zzDelScenario) pendingAt(i int) bool {
	return sc.s.pending.GetByHeight(sc.chain[i].H) != nil
}

func (sc *zzDelScenario) valid() bool {
	if sc.from >= sc.to {
		return false
	}
	prefix := sc.from == sc.tailH && sc.to <= sc.headH+1
	suffix := sc.to == sc.headH+1 && sc.from >= sc.tailH
	return prefix || suffix
}

func (sc *zzDelScenario) inRange(i int) bool {
	h := sc.chain[i].H
	return h >= sc.from && h < sc.to
}

// readable: can the header be obtained through the public API (bounded wait for future heights)?
func zzReadable(ctx context.Context, s *Store[*zh.Hdr], h *zh.Hdr) (byHeight, byHash, has bool) {
	tctx, cancel := context.WithTimeout(ctx, time.Second)
	g, err := s.GetByHeight(tctx, h.H)
	cancel()
	byHeight = err == nil && g != nil && g.ID == h.ID
	g2, err := s.Get(ctx, h.Hash())
	byHash = err == nil && g2 != nil && g2.ID == h.ID
	ok, err := s.Has(ctx, h.Hash())
	has = err == nil && ok
	return
}

// onDisk: raw datastore keys of the header (hash key and height index key).
func zzOnDisk(ctx context.Context, s *Store[*zh.Hdr], h *zh.Hdr) (hashKeyPresent, heightKeyPresent bool) {
	a, _ := s.ds.Has(ctx, hashKey(h.Hash()))
	b, _ := s.ds.Has(ctx, heightKey(h.H))
	return a, b
}
