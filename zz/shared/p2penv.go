package PKG

// Network cut for the p2p client harnesses: the unit's spec renames the real sendMessage to
// zzorig_sendMessage (textually, in the overlay) and this replacement delegates to a script.

import (
	"context"

	"github.com/libp2p/go-libp2p/core/host"
	"github.com/libp2p/go-libp2p/core/peer"
	"github.com/libp2p/go-libp2p/core/protocol"

	p2p_pb "github.com/celestiaorg/go-header/p2p/pb"
)

// zzSend is what a peer answers: set by the harness.
var zzSend func(ctx context.Context, to peer.ID, req *p2p_pb.HeaderRequest) ([]*p2p_pb.HeaderResponse, int, error)

func sendMessage(
	ctx context.Context,
	_ host.Host,
	to peer.ID,
	_ protocol.ID,
	req *p2p_pb.HeaderRequest,
) ([]*p2p_pb.HeaderResponse, int, error) {
	return zzSend(ctx, to, req)
}

var _ = zzorig_sendMessage

func zzItoa(i int) string {
	if i < 0 {
		return "-" + zzItoa(-i)
	}
	if i < 10 {
		return string(rune('0' + i))
	}
	return zzItoa(i/10) + string(rune('0'+i%10))
}
