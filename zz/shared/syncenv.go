package PKG

// Environment shared by the sync-package harnesses: a specification store, a scripted getter and a
// subscriber mock. All of it is ordinary Go: executed by the engine and compiled natively for replay.

import (
	"context"
	"errors"

	header "github.com/celestiaorg/go-header"
	zh "github.com/celestiaorg/go-header/internal/zzhdr"
	zz "github.com/celestiaorg/go-header/internal/zzverif"
	pubsub "github.com/libp2p/go-libp2p-pubsub"
)

var _ = pubsub.ValidationAccept

// zzSpecStore is a straightforward header.Store used where the Syncer, not the Store, is under test
// (the real Store is the subject of C04/C06/C08/C12/C14/C17). It keeps what the real Store promises:
// Head is the top of the contiguous run, DeleteRange accepts only the ends of the chain.
type zzSpecStore struct {
	hdrs       map[uint64]*zh.Hdr
	head       *zh.Hdr
	tail       *zh.Hdr
	batches    [][]*zh.Hdr // every Append as received (copied)
	aliases    [][]*zh.Hdr // the very slices handed to Append: the real Store reads them later, asynchronously
	overwrites int         // Appends that replaced a stored header by a different one of the same height
	deletes    [][2]uint64
	failAppend func() error // optional fault injection
	gateHead   bool
	gateAppend bool // only Append is a scheduling point
}

func zzNewSpecStore() *zzSpecStore { return &zzSpecStore{hdrs: map[uint64]*zh.Hdr{}} }

func (s *zzSpecStore) Head(context.Context, ...header.HeadOption[*zh.Hdr]) (*zh.Hdr, error) {
	if s.gateHead {
		zz.Gate("store:head") // optional scheduling point: lets a delivery land between the sync loop's reads
	}
	if s.head == nil {
		return nil, header.ErrEmptyStore
	}
	return s.head, nil
}

func (s *zzSpecStore) Tail(context.Context) (*zh.Hdr, error) {
	if s.tail == nil {
		return nil, header.ErrEmptyStore
	}
	return s.tail, nil
}

func (s *zzSpecStore) Height() uint64 {
	if s.head == nil {
		return 0
	}
	return s.head.H
}

func (s *zzSpecStore) Get(_ context.Context, hash header.Hash) (*zh.Hdr, error) {
	for _, h := range s.hdrs {
		if string(h.Hash()) == string(hash) {
			return h, nil
		}
	}
	return nil, header.ErrNotFound
}

func (s *zzSpecStore) GetByHeight(_ context.Context, height uint64) (*zh.Hdr, error) {
	if h, ok := s.hdrs[height]; ok {
		return h, nil
	}
	return nil, header.ErrNotFound
}

func (s *zzSpecStore) GetRangeByHeight(ctx context.Context, from *zh.Hdr, to uint64) ([]*zh.Hdr, error) {
	return s.GetRange(ctx, from.H+1, to)
}

func (s *zzSpecStore) GetRange(_ context.Context, from, to uint64) ([]*zh.Hdr, error) {
	if from >= to {
		return nil, errors.New("specstore: invalid range")
	}
	var out []*zh.Hdr
	for h := from; h < to; h++ {
		x, ok := s.hdrs[h]
		if !ok {
			return nil, header.ErrNotFound
		}
		out = append(out, x)
	}
	return out, nil
}

func (s *zzSpecStore) Has(_ context.Context, hash header.Hash) (bool, error) {
	for _, h := range s.hdrs {
		if string(h.Hash()) == string(hash) {
			return true, nil
		}
	}
	return false, nil
}

func (s *zzSpecStore) HasAt(_ context.Context, height uint64) bool {
	return s.head != nil && s.tail != nil && height >= s.tail.H && height <= s.head.H && height != 0
}

func (s *zzSpecStore) Append(_ context.Context, hs ...*zh.Hdr) error {
	if len(hs) == 0 {
		return nil
	}
	if s.gateHead || s.gateAppend {
		zz.Gate("store:append") // optional scheduling point (see Head)
	}
	if s.failAppend != nil {
		if err := s.failAppend(); err != nil {
			return err
		}
	}
	s.batches = append(s.batches, append([]*zh.Hdr{}, hs...))
	s.aliases = append(s.aliases, hs)
	for _, h := range hs {
		if old, ok := s.hdrs[h.H]; ok && old != h {
			s.overwrites++
		}
		s.hdrs[h.H] = h
	}
	if s.head == nil {
		s.head = hs[len(hs)-1]
		s.tail = hs[0]
	}
	for {
		n, ok := s.hdrs[s.head.H+1]
		if !ok {
			break
		}
		s.head = n
	}
	for s.tail.H > 0 {
		n, ok := s.hdrs[s.tail.H-1]
		if !ok {
			break
		}
		s.tail = n
	}
	return nil
}

func (s *zzSpecStore) DeleteRange(_ context.Context, from, to uint64) error {
	if s.head == nil {
		return header.ErrEmptyStore
	}
	if from >= to {
		return errors.New("specstore: invalid range")
	}
	fromTail := from == s.tail.H && to <= s.head.H+1
	fromHead := to == s.head.H+1 && from >= s.tail.H
	if !fromTail && !fromHead {
		return errors.New("specstore: range would create a gap")
	}
	s.deletes = append(s.deletes, [2]uint64{from, to})
	for h := from; h < to; h++ {
		delete(s.hdrs, h)
	}
	switch {
	case fromTail && fromHead:
		s.head, s.tail = nil, nil
	case fromTail:
		s.tail = s.hdrs[to]
	default:
		s.head = s.hdrs[from-1]
	}
	return nil
}

func (s *zzSpecStore) OnDelete(func(context.Context, uint64) error) {}

// zzContiguous reports whether the stored heights form one run tail..head.
func (s *zzSpecStore) zzContiguous() bool {
	if s.head == nil {
		return len(s.hdrs) == 0
	}
	n := uint64(0)
	for h := s.tail.H; h <= s.head.H; h++ {
		if _, ok := s.hdrs[h]; !ok {
			return false
		}
		n++
	}
	return n == uint64(len(s.hdrs))
}

// zzGetter is a scripted header.Getter.
type zzGetter struct {
	head        func(ctx context.Context, opts ...header.HeadOption[*zh.Hdr]) (*zh.Hdr, error)
	get         func(ctx context.Context, hash header.Hash) (*zh.Hdr, error)
	getByHeight func(ctx context.Context, h uint64) (*zh.Hdr, error)
	getRange    func(ctx context.Context, from *zh.Hdr, to uint64) ([]*zh.Hdr, error)

	headCalls, getCalls, byHeightCalls, rangeCalls int
}

var zzErrGetter = errors.New("zz: getter failure")

func (g *zzGetter) Head(ctx context.Context, opts ...header.HeadOption[*zh.Hdr]) (*zh.Hdr, error) {
	g.headCalls++
	if g.head == nil {
		return nil, zzErrGetter
	}
	return g.head(ctx, opts...)
}

func (g *zzGetter) Get(ctx context.Context, hash header.Hash) (*zh.Hdr, error) {
	g.getCalls++
	if g.get == nil {
		return nil, zzErrGetter
	}
	return g.get(ctx, hash)
}

func (g *zzGetter) GetByHeight(ctx context.Context, h uint64) (*zh.Hdr, error) {
	g.byHeightCalls++
	if g.getByHeight == nil {
		return nil, zzErrGetter
	}
	return g.getByHeight(ctx, h)
}

func (g *zzGetter) GetRangeByHeight(ctx context.Context, from *zh.Hdr, to uint64) ([]*zh.Hdr, error) {
	g.rangeCalls++
	if g.getRange == nil {
		return nil, zzErrGetter
	}
	return g.getRange(ctx, from, to)
}

// zzSub captures the verifier the Syncer registers.
type zzSub struct {
	verifier func(context.Context, *zh.Hdr) error
}

func (s *zzSub) Subscribe() (header.Subscription[*zh.Hdr], error) {
	return nil, errors.New("zz: no subscriptions")
}
func (s *zzSub) SetVerifier(v func(context.Context, *zh.Hdr) error) error {
	s.verifier = v
	return nil
}

func zzItoa(i int) string {
	if i < 0 {
		return "-" + zzItoa(-i)
	}
	if i < 10 {
		return string(rune('0' + i))
	}
	return zzItoa(i/10) + string(rune('0'+i%10))
}
