package zzverif

// This file is part of the native replay build only (the engine's overlay leaves it out).

import (
	"encoding/json"
	"fmt"
	"os"
	"runtime"
	"runtime/debug"
	"sync/atomic"
	"syscall"
	"testing"
	"testing/synctest"
	"time"
)

// activity counts events of the harness API; the coordinator treats the run as quiet when it stops moving.
var activity atomic.Int64

var sleepingSince atomic.Int64 // real ms since the coordinator started waiting for virtual time; 0: not waiting

func realNowMs() int64 { return realNow() / 1000 }

func realNow() int64 {
	var tv syscall.Timeval
	syscall.Gettimeofday(&tv)
	return tv.Sec*1_000_000 + int64(tv.Usec)
}

// waitQuiet waits until the other goroutines stopped making progress: nothing arrived at a gate, no
// harness API call, for 3 ms of real time. (synctest.Wait cannot be used: a goroutine blocked on a
// sync.Mutex held by a goroutine parked at a gate is not "durably blocked" for synctest.)
func waitQuiet(done chan struct{}) {
	last := activity.Load()
	since := realNow()
	for {
		select {
		case <-done:
			return
		default:
		}
		runtime.Gosched()
		if a := activity.Load(); a != last {
			last, since = a, realNow()
			continue
		}
		if realNow()-since > 3000 {
			return
		}
	}
}

// Outcome is what the native run of a harness produced; printed as one "ZZ-OUTCOME " line.
type Outcome struct {
	Status string   `json:"status"` // pass | assert | panic | diverged
	Fails  []string `json:"fails"`
	Panic  string   `json:"panic"`
	Trace  []string `json:"trace"`
	Known  string   `json:"known"`
	Note   string   `json:"note"`
}

var quiesceWaiter chan struct{}

// RunReplay runs the harness named in $ZZ_REPLAY inside a synctest bubble, forcing the recorded
// gate order, prints the outcome and exits the process (left-over goroutines of the code under
// test are of no interest once the oracle has spoken).
func RunReplay(t *testing.T, table map[string]func()) {
	r := Load()
	fn := table[r.Harness]
	if fn == nil {
		emit(Outcome{Status: "diverged", Note: "no harness " + r.Harness})
	}
	Tick = func() { activity.Add(1) }
	// Watchdog in real time, outside the bubble: virtual time only advances when every goroutine of the
	// bubble is durably blocked, and a goroutine waiting for a mutex never is. If the coordinator's sleep
	// does not return within a few real seconds the run is wedged on a lock: report it as a deadlock.
	go func() {
		for {
			time.Sleep(200 * time.Millisecond) // real time: this goroutine is not part of the bubble
			since := sleepingSince.Load()
			if since != 0 && realNowMs()-since > 4000 {
				fails, trace, known := Results()
				o := Outcome{Status: "deadlock", Fails: fails, Trace: trace, Known: known,
					Note: "virtual time cannot advance: a goroutine is blocked on a lock; parked: " + Parked()}
				if len(fails) > 0 {
					o.Status = "assert"
				}
				emit(o)
			}
		}
	}()
	synctest.Test(t, func(t *testing.T) {
		Begin(time.Now())
		out := Outcome{Status: "pass"}
		done := make(chan struct{})
		QuiesceHook = func() {
			ch := make(chan struct{})
			st.mu.Lock()
			quiesceWaiter = ch
			st.mu.Unlock()
			Tick()
			<-ch
		}
		go func() {
			defer close(done)
			defer func() {
				if x := recover(); x != nil {
					if d, ok := x.(Diverged); ok {
						out.Status, out.Note = "diverged", d.Why
						return
					}
					out.Status = "panic"
					out.Panic = fmt.Sprint(x)
					out.Note = string(debug.Stack())
				}
			}()
			fn()
		}()
		stuck := 0
	loop:
		for {
			if len(r.Gates) > 0 {
				waitQuiet(done)
			} else {
				synctest.Wait()
			}
			select {
			case <-done:
				break loop
			default:
			}
			label, ok, _ := ReleaseNext()
			if ok {
				stuck = 0
				continue
			}
			st.mu.Lock()
			qw := quiesceWaiter
			st.mu.Unlock()
			if qw != nil && Parked() != "" {
				// the harness waits for quiescence while goroutines are parked at gates that are not next in the
				// recorded order: the order cannot be followed any further. In the engine Quiesce never returns
				// with a thread parked at a gate, so let the parked goroutines through (one at a time, stable
				// order) before the harness goes on to its oracle.
				AbandonOrder()
				out.Note = fmt.Sprintf("gate order abandoned at %q (quiescence); parked: %s", label, Parked())
				stuck = 0
				continue
			}
			if qw != nil {
				st.mu.Lock()
				quiesceWaiter = nil
				st.mu.Unlock()
				close(qw)
				stuck = 0
				continue
			}
			// nothing to release: either the harness is waiting for virtual time or it is stuck
			stuck++
			if stuck == 2 && Parked() != "" {
				// the recorded order cannot be followed any further (scheduling between two gates is not
				// controlled): let the parked goroutines through one at a time in a stable order and see
				// whether the oracle still fails
				AbandonOrder()
				out.Note = fmt.Sprintf("gate order abandoned at %q; parked: %s", label, Parked())
				continue
			}
			if stuck > 3 {
				out.Status = "deadlock"
				out.Note += fmt.Sprintf(" stuck: next gate %q not reached; parked: %s", label, Parked())
				break loop
			}
			sleepingSince.Store(realNowMs())
			time.Sleep(time.Hour) // let virtual timers fire
			sleepingSince.Store(0)
		}
		fails, trace, known := Results()
		out.Fails, out.Trace, out.Known = fails, trace, known
		if (out.Status == "pass" || out.Status == "diverged" || out.Status == "deadlock") && len(fails) > 0 {
			// an Assume(false) right after a failed Assert is the harness idiom for "cut the run here"
			out.Status = "assert"
		}
		emit(out)
	})
}

func emit(o Outcome) {
	b, _ := json.Marshal(o)
	fmt.Printf("\nZZ-OUTCOME %s\n", b)
	os.Stdout.Sync()
	os.Exit(7)
}
