package zzverif

// This file is part of the native replay build only (the engine's overlay leaves it out).

import (
	"encoding/json"
	"fmt"
	"os"
	"runtime/debug"
	"testing"
	"testing/synctest"
	"time"
)

// Outcome is what the native run of a harness produced; printed as one "ZZ-OUTCOME " line.
type Outcome struct {
	Status string   `json:"status"` // pass | assert | panic | diverged
	Fails  []string `json:"fails"`
	Panic  string   `json:"panic"`
	Trace  []string `json:"trace"`
	Known  string   `json:"known"`
	Note   string   `json:"note"`
}

var quiesceWaiter chan struct{}

// RunReplay runs the harness named in $ZZ_REPLAY inside a synctest bubble, forcing the recorded
// gate order, prints the outcome and exits the process (left-over goroutines of the code under
// test are of no interest once the oracle has spoken).
func RunReplay(t *testing.T, table map[string]func()) {
	r := Load()
	fn := table[r.Harness]
	if fn == nil {
		emit(Outcome{Status: "diverged", Note: "no harness " + r.Harness})
	}
	synctest.Test(t, func(t *testing.T) {
		Begin(time.Now())
		out := Outcome{Status: "pass"}
		done := make(chan struct{})
		QuiesceHook = func() {
			ch := make(chan struct{})
			st.mu.Lock()
			quiesceWaiter = ch
			st.mu.Unlock()
			<-ch
		}
		go func() {
			defer close(done)
			defer func() {
				if x := recover(); x != nil {
					if d, ok := x.(Diverged); ok {
						out.Status, out.Note = "diverged", d.Why
						return
					}
					out.Status = "panic"
					out.Panic = fmt.Sprint(x)
					out.Note = string(debug.Stack())
				}
			}()
			fn()
		}()
		stuck := 0
	loop:
		for {
			synctest.Wait()
			select {
			case <-done:
				break loop
			default:
			}
			label, ok, _ := ReleaseNext()
			if ok {
				stuck = 0
				continue
			}
			st.mu.Lock()
			qw := quiesceWaiter
			quiesceWaiter = nil
			st.mu.Unlock()
			if qw != nil {
				close(qw)
				stuck = 0
				continue
			}
			// nothing to release: either the harness is waiting for virtual time or it is stuck
			stuck++
			if stuck > 3 {
				out.Status = "deadlock"
				out.Note = fmt.Sprintf("stuck: next gate %q not reached; parked: %s", label, Parked())
				break loop
			}
			time.Sleep(time.Hour) // let virtual timers fire
		}
		fails, trace, known := Results()
		out.Fails, out.Trace, out.Known = fails, trace, known
		if (out.Status == "pass" || out.Status == "diverged" || out.Status == "deadlock") && len(fails) > 0 {
			// an Assume(false) right after a failed Assert is the harness idiom for "cut the run here"
			out.Status = "assert"
		}
		emit(out)
	})
}

func emit(o Outcome) {
	b, _ := json.Marshal(o)
	fmt.Printf("\nZZ-OUTCOME %s\n", b)
	os.Stdout.Sync()
	os.Exit(7)
}
