// Package zzverif is the harness API of the gse symbolic executor.
//
// Inside the engine every exported function below is an intrinsic: its body is never interpreted.
// Compiled natively (replay of a solver model against the real code) the bodies read the values
// the solver chose from the replay file named by $ZZ_REPLAY.
//
// This package must not import anything from go-header so that every package can use it.
package zzverif

import (
	"strconv"
	"encoding/json"
	"fmt"
	"os"
	"sort"
	"strings"
	"sync"
	"time"
)

// Replay is the on-disk form of one solver model projected onto the harness inputs.
type Replay struct {
	Property string              `json:"property"`
	Package  string              `json:"package"`
	Harness  string              `json:"harness"`
	Params   map[string]int      `json:"params"`
	Values   map[string][]uint64 `json:"values"` // label -> successive draws
	Clock0   int64               `json:"clock0"` // the model's value of the clock at harness start (ns)
	Gates    []string            `json:"gates"`  // order in which gate passages were released
	Expect   string              `json:"expect"` // "assert:<msg>" | "panic:<substr>" | "pass"
	Trace    []string            `json:"trace"`  // Reach/Observe trace predicted by the engine
	Path     []int               `json:"path"`
	Note     string              `json:"note,omitempty"`
}

// Diverged is the panic value used when the native run leaves the path the model describes.
type Diverged struct{ Why string }

type state struct {
	mu      sync.Mutex
	r       *Replay
	pos     map[string]int
	Fails   []string
	Trace   []string
	bubble0 time.Time
	waiting map[string][]chan struct{}
	gatePos int
	known   string
}

var st = &state{pos: map[string]int{}, waiting: map[string][]chan struct{}{}}

// Tick is called on every harness API event (native replay only: progress indicator for the coordinator).
var Tick = func() {}

// Load reads the replay file; called by the native replay test before the harness runs.
func Load() *Replay {
	p := os.Getenv("ZZ_REPLAY")
	if p == "" {
		panic("ZZ_REPLAY not set")
	}
	b, err := os.ReadFile(p)
	if err != nil {
		panic(err)
	}
	r := &Replay{}
	if err := json.Unmarshal(b, r); err != nil {
		panic(err)
	}
	st = &state{r: r, pos: map[string]int{}, waiting: map[string][]chan struct{}{}}
	return r
}

// Begin fixes the native instant the model's clock0 maps onto.
func Begin(now time.Time) { st.bubble0 = now }

func draw(label string) uint64 {
	Tick()
	st.mu.Lock()
	defer st.mu.Unlock()
	if st.r == nil {
		panic("zzverif: native call outside a replay")
	}
	vs := st.r.Values[label]
	i := st.pos[label]
	if i >= len(vs) {
		panic(Diverged{"no recorded value for " + label + "#" + fmt.Sprint(i)})
	}
	st.pos[label] = i + 1
	return vs[i]
}

// U64 returns an arbitrary uint64.
func U64(label string) uint64 { return draw(label) }

// I64 returns an arbitrary int64.
func I64(label string) int64 { return int64(draw(label)) }

// U8 returns an arbitrary byte.
func U8(label string) byte { return byte(draw(label)) }

// I32 returns an arbitrary int32.
func I32(label string) int32 { return int32(draw(label)) }

// Bool returns an arbitrary bool.
func Bool(label string) bool { return draw(label) != 0 }

// Choice returns an arbitrary int in [0,n).
func Choice(label string, n int) int { return int(draw(label)) }

// Str returns an arbitrary opaque string: two results are equal iff the solver made them equal.
func Str(label string) string { return fmt.Sprintf("zs%d", draw(label)) }

// StrN returns an arbitrary byte string of length <= max (every byte symbolic): equality, len, constant
// slicing and constant indexing are exact in the engine.
func StrN(label string, max int) string {
	n := int(draw(label + ".len"))
	b := make([]byte, max)
	for i := range b {
		b[i] = byte(draw(label + ".b" + strconv.Itoa(i)))
	}
	if n > max {
		n = max
	}
	return string(b[:n])
}

// Time returns an arbitrary non-zero instant within ±2^61 ns of the epoch.
func Time(label string) time.Time {
	v := int64(draw(label))
	return st.bubble0.Add(time.Duration(v - st.r.Clock0))
}

// Dur returns an arbitrary time.Duration.
func Dur(label string) time.Duration { return time.Duration(int64(draw(label))) }

// Assume restricts the inputs; natively a false assumption means the run left the model's path.
func Assume(c bool) {
	if !c {
		panic(Diverged{"assumption false"})
	}
}

// Assert states the property.
func Assert(c bool, msg string) {
	if !c {
		st.mu.Lock()
		st.Fails = append(st.Fails, msg)
		st.mu.Unlock()
	}
}

// Reach marks a situation the harness is meant to cover (vacuity witness).
func Reach(label string) {
	Tick()
	st.mu.Lock()
	st.Trace = append(st.Trace, "reach:"+label)
	st.mu.Unlock()
}

// Observe records a value for the engine-vs-native differential check.
func Observe(label string, v uint64) {
	st.mu.Lock()
	st.Trace = append(st.Trace, fmt.Sprintf("obs:%s=%d", label, v))
	st.mu.Unlock()
}

// ObserveBool is Observe for booleans.
func ObserveBool(label string, v bool) {
	x := uint64(0)
	if v {
		x = 1
	}
	Observe(label, x)
}

// Known marks the rest of this path as belonging to the known-finding class slug when cond holds.
// It returns cond.
func Known(slug string, cond bool) bool {
	if cond {
		st.mu.Lock()
		st.known = slug
		st.mu.Unlock()
	}
	return cond
}

// Param returns a bound chosen per tier by the check's spec (def if the spec does not set it).
func Param(name string, def int) int {
	if st.r != nil {
		if v, ok := st.r.Params[name]; ok {
			return v
		}
	}
	return def
}

// Advance moves the clock forward by d (natively: a virtual sleep inside the synctest bubble).
func Advance(d time.Duration) {
	if d > 0 {
		time.Sleep(d)
	}
}

// Yield is a scheduling point.
func Yield() {}

// Gate is a labelled scheduling point placed in environment call-backs. Natively the goroutine
// parks until the replay coordinator releases this label (see RunReplay).
func Gate(label string) {
	st.mu.Lock()
	if st.r == nil || len(st.r.Gates) == 0 {
		st.mu.Unlock()
		return
	}
	ch := make(chan struct{})
	st.waiting[label] = append(st.waiting[label], ch)
	st.mu.Unlock()
	Tick()
	<-ch
	Tick()
}

// ReleaseNext is used by the replay coordinator: releases the goroutine parked at the next gate
// of the recorded order. ok=false: nobody is parked there (done reports an exhausted order).
func ReleaseNext() (label string, ok, done bool) {
	st.mu.Lock()
	defer st.mu.Unlock()
	if st.gatePos >= len(st.r.Gates) {
		// order exhausted: let everyone through in a stable order
		var ls []string
		for l, w := range st.waiting {
			if len(w) > 0 {
				ls = append(ls, l)
			}
		}
		if len(ls) == 0 {
			return "", false, true
		}
		sort.Strings(ls)
		l := ls[0]
		ch := st.waiting[l][0]
		st.waiting[l] = st.waiting[l][1:]
		close(ch)
		return l, true, true
	}
	l := st.r.Gates[st.gatePos]
	w := st.waiting[l]
	if len(w) == 0 {
		return l, false, false
	}
	st.gatePos++
	st.waiting[l] = w[1:]
	close(w[0])
	return l, true, false
}

// AbandonOrder makes ReleaseNext ignore the rest of the recorded gate order.
func AbandonOrder() {
	st.mu.Lock()
	st.gatePos = len(st.r.Gates)
	st.mu.Unlock()
}

// Parked lists the labels with parked goroutines (diagnostics).
func Parked() string {
	st.mu.Lock()
	defer st.mu.Unlock()
	var ls []string
	for l, w := range st.waiting {
		if len(w) > 0 {
			ls = append(ls, fmt.Sprintf("%s×%d", l, len(w)))
		}
	}
	sort.Strings(ls)
	return strings.Join(ls, ",")
}

// Quiesce lets every other thread run until all of them are blocked or finished.
// Natively it is replaced by synctest.Wait through this hook.
func Quiesce() {
	if QuiesceHook != nil {
		QuiesceHook()
	}
}

// QuiesceHook is set by the native replay driver.
var QuiesceHook func()

// Results returns the failed assertions and the trace of the native run.
func Results() (fails, trace []string, known string) {
	st.mu.Lock()
	defer st.mu.Unlock()
	return append([]string{}, st.Fails...), append([]string{}, st.Trace...), st.known
}
