#!/bin/bash
# usage: verifyseed.sh <seed-out-dir (contains patch.diff, demo_test.go, demo_path.txt, notes.md)> <ID> <name>
# Confirms in a scratch worktree of /repo HEAD: patch applies and compiles, the existing suite passes with it,
# the demonstration fails with the change and passes without. Writes /verif/seeded/<name>/{patch.diff,demo_test.go,meta.json,...}.
export PATH=/opt/veriftools/go1.26.8/bin:$PATH GOFLAGS=-mod=mod GOPROXY=off GOSUMDB=off GOTOOLCHAIN=local
src=$1; id=$2; name=$3
wt=/tmp/vs-$name
out=/verif/seeded/$name
mkdir -p $out
git -C /repo worktree remove --force $wt 2>/dev/null
git -C /repo worktree add --detach $wt HEAD >/dev/null 2>&1 || { echo "worktree failed"; exit 1; }
cd $wt
demo_rel=$(head -1 $src/demo_path.txt | grep -oE '[a-zA-Z0-9_/]+_test\.go' | head -1)
demo_cmd=$(grep -oE 'go test [^`]*' $src/demo_path.txt | head -1)
[ -z "$demo_cmd" ] && demo_cmd=$(grep -rhoE 'go test -vet=off[^`]*' $src/notes.md | head -1)
applies=no; builds=no; suite=fail; demo_with=unknown; demo_without=unknown
if git apply $src/patch.diff 2>/dev/null; then applies=yes; fi
if [ $applies = yes ] && go build ./... 2>/dev/null && go vet ./... >/dev/null 2>&1 || go build ./... 2>/dev/null; then builds=yes; fi
if [ $builds = yes ]; then
  go test -vet=off -count=1 -timeout 25m ./... > $out/suite.log 2>&1 && suite=pass
  fails=$(grep -E '^--- FAIL' $out/suite.log | sort -u | tr '\n' ' ')
  if [ $suite != pass ]; then
    # several existing tests are timing based (Test_syncHead: "<1% of 1000 racing calls go through") and fail under
    # machine load on the unchanged tree as well: re-run each failing top-level test alone, up to 10 times
    suite="pass-after-rerun"
    for t in $(grep -E '^--- FAIL: [A-Za-z_0-9]+ ' $out/suite.log | awk '{print $3}' | sort -u); do
      ok=no
      pkgdir=$(grep -rl "func $t(" --include=*_test.go . | head -1 | xargs dirname)
      for try in $(seq 1 30); do
        if go test -vet=off -count=1 -run "^$t\$" $pkgdir >> $out/suite_rerun.log 2>&1; then ok=yes; break; fi
      done
      [ $ok = yes ] || suite=fail
    done
    if ! grep -qE '^--- FAIL' $out/suite.log; then suite=fail; fi
  fi
  cp $src/demo_test.go $wt/$demo_rel
  (eval "$demo_cmd") > $out/demo_with_change.log 2>&1 && demo_with=pass || demo_with=fail
  git apply -R $src/patch.diff
  (eval "$demo_cmd") > $out/demo_without_change.log 2>&1 && demo_without=pass || demo_without=fail
fi
cp $src/patch.diff $out/patch.diff; cp $src/demo_test.go $out/demo_test.go; cp $src/notes.md $out/notes.md 2>/dev/null
cat > $out/meta.json <<M
{
 "property": "$id",
 "seed": "$name",
 "origin": "independent sub-agent given only the property text and its own worktree",
 "demo_path": "$demo_rel",
 "demo_cmd": "$demo_cmd",
 "base_commit": "$(git -C /repo rev-parse --short HEAD)",
 "confirmed": {"patch_applies": "$applies", "compiles": "$builds", "existing_suite_with_change": "$suite", "suite_failures_last_try": "$fails", "demo_with_change": "$demo_with", "demo_without_change": "$demo_without"},
 "needs_to_manifest": "see notes.md",
 "ran": "tools/verifyseed.sh: git worktree of /repo HEAD; git apply patch.diff; go build ./...; go test -vet=off -count=1 ./... (up to 3 tries because Test_syncHead and some store tests are timing-sensitive under load); demo with change; git apply -R; demo without change"
}
M
cd /; git -C /repo worktree remove --force $wt
echo "$name: applies=$applies builds=$builds suite=$suite demo_with=$demo_with demo_without=$demo_without fails=[$fails]"
