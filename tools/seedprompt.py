#!/usr/bin/env python3
import json,sys
pid=sys.argv[1]
for l in open('/verif/properties.jsonl'):
    p=json.loads(l)
    if p['id']==pid: break
print(f"""You are helping test a verification effort for the Go library celestiaorg/go-header (a library for syncing, exchanging over libp2p, verifying and storing blockchain headers). Your job: craft realistic *bugs* ("seeded changes") that break ONE stated semantic property of the library while still compiling and passing the library's existing test suite.

THE PROPERTY ({pid}): {p['title']}
Statement: {p['statement']}
Quantified over: {p['quantifier']['text']}

SETUP (sandbox has NO network; do exactly this):
- Every shell call must start with: export PATH=/opt/veriftools/go1.26.8/bin:$PATH GOFLAGS=-mod=mod GOPROXY=off GOSUMDB=off GOTOOLCHAIN=local
- Create your own scratch git worktree of the repository: `git -C /repo worktree add --detach /tmp/seed-{pid}-wt HEAD`. Work ONLY inside /tmp/seed-{pid}-wt and /tmp/seed-{pid}-out. NEVER edit anything under /repo itself, and never look at or touch /verif.
- The existing test suite is run with: `cd /tmp/seed-{pid}-wt && go test -vet=off -count=1 -timeout 25m ./...` (takes ~1-2 minutes; all tests pass on the unchanged tree).

WHAT TO PRODUCE: two different seeded changes, A and B (different mechanisms / different code sites), each of which:
1. is a small, realistic source change to non-test .go files of the library (the kind of slip a maintainer could plausibly make in a refactor: a dropped check, a flipped comparison, a reordered pair of steps, a wrong bound, a lost error path, a missing lock/notification, ...);
2. still compiles, and the FULL existing test suite still passes with it (run it, and re-run any flaky-looking failure to be sure; a change that fails an existing test is useless);
3. breaks the property above, but only under something specific: a particular interleaving, a crash or fault at a particular point, a multi-step sequence of operations, an unusual/boundary input, or two cooperating sites that each look fine alone. NOT something ordinary use would expose at once;
4. comes with a demonstration: a new Go test file (e.g. zz_seed_test.go placed in the relevant package directory) with one test function that FAILS with your change applied and PASSES on the unchanged tree. The demonstration must be deterministic (no reliance on lucky timing; use channels/hooks/mocks you write inside the test file to force orders). Verify both directions yourself (with change: fails; after `git diff > /tmp/seed-{pid}-out/x.patch && git apply -R /tmp/seed-{pid}-out/x.patch`: passes. NEVER use `git stash` (the stash is shared by all worktrees of /repo and other agents work concurrently)).

DELIVERABLES: create directory /tmp/seed-{pid}-out/A and /tmp/seed-{pid}-out/B, each containing:
- patch.diff : output of `git diff` for the library change only (NOT including the demonstration test), appliable with `git apply` at the repository root;
- the demonstration test file, named demo_test.go, plus a one-line file demo_path.txt giving the repository-relative path where it must be placed (e.g. store/zz_seed_test.go) and the `go test` command to run it (e.g. `go test -vet=off -count=1 -run TestSeedA ./store/`);
- notes.md : what the change is, why the existing tests do not notice, exactly what is needed for the violation to manifest, and the observed outputs (failing with the change, passing without).
If after serious effort you can only produce one good change, deliver one and say so.

When finished, remove your worktree and its build output: `git -C /repo worktree remove --force /tmp/seed-{pid}-wt`. Keep /tmp/seed-{pid}-out. In your final answer, summarise each change in 3-4 lines (files/functions touched, what it needs to manifest).""")
