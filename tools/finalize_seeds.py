#!/usr/bin/env python3
"""Merges tools/seedtable.json into /verif/seeded/*/meta.json and drops seeds that could not be confirmed."""
import json, os, shutil, glob
V='/verif'
tab=json.load(open(f'{V}/tools/seedtable.json'))
kept=[]; dropped=[]
for d in sorted(glob.glob(f'{V}/seeded/*')):
    name=os.path.basename(d)
    mp=os.path.join(d,'meta.json')
    if not os.path.exists(mp): continue
    m=json.load(open(mp))
    c=m['confirmed']
    ok = c['patch_applies']=='yes' and c['compiles']=='yes' and c['existing_suite_with_change'] in ('pass','pass-after-rerun') and c['demo_with_change']=='fail' and c['demo_without_change']=='pass'
    if not ok or name not in tab:
        dropped.append((name,c)); shutil.rmtree(d); continue
    m['breaks_property']=m['property']
    m['needs_to_manifest']=tab[name]['needs']
    m['caught_by']=tab[name]['caught_by']
    if 'note' in tab[name]: m['note']=tab[name]['note']
    json.dump(m,open(mp,'w'),indent=1)
    for f in ('suite.log','suite_rerun.log'):
        fp=os.path.join(d,f)
        if os.path.exists(fp) and os.path.getsize(fp)>200000:
            open(fp,'w').write(open(fp,errors='ignore').read()[-100000:])
    kept.append(name)
print('kept',len(kept),kept); print('dropped',dropped)
