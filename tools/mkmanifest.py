#!/usr/bin/env python3
"""Regenerates /verif/MANIFEST.json from the per-property specs and the table below."""
import json, os
V='/verif'
claims = {
 'C01': ('proof', "Every assertion of the oracle is decided by the SMT solver (unsat) for all 64-bit heights, all instants in range, all chain-id equalities and all six type-level outcomes on every path of the real Verify/verify SSA; no loop, hence no unrolling bound.", "Instantiation H=zzH only; clock constant during one call; instants within +-2^61 ns. Trusted: go/ssa, gse executor and its time/errors/fmt intrinsics, oracle in props/C01, z3."),
 'C02': ('model_checking', "Bounded: every input sequence of length <= N (3 quick, 5 thorough) incl. nil entries and aliases, arbitrary per-pair type-level verdicts; the VerifyRange loop is unrolled exactly (concrete slice lengths), each path decided for all heights/times by the solver.", "Ranges longer than N are outside the claim. Same trusted base as C01."),
 'C04': ('model_checking', "Bounded histories (Append of any sub-run / Sync / restart / DeleteRange, after an optional flushed prelude) over a K-chain on the real Store, keytransform, namespace and 2Q-LRU code, four covering store configurations; the public API is compared with a reference model after a final Sync.", "One run-to-block schedule per history (interleavings are C12/C17). K<=3,L<=2 in both tiers (BOUNDS.md). Datastore = zzMemDS contract (atomic writes/commits)."),
 'C08': ('model_checking', "Every flushed/pending split of a K-chain x every (from,to) pair around the chain ends x four store configurations, then continuation appends, flush and restart on the real Store; plus unconstrained 64-bit (from,to) for the rejection rule.", "Sequential delete path only (deleteParallel outside); K<=3 in both tiers (BOUNDS.md); datastore contract zzMemDS."),
 'C09': ('model_checking', "Quorum lemma decided for every n in [0,2^31) (proof-level unit); Head() explored for <=3 (quick) / 5 (thorough) peers, every assignment of answers over D distinct headers with unconstrained 64-bit heights and arbitrary verdicts against the trusted head, tracker empty or not; arrival orders covered by peer symmetry.", "Network cut at sendMessage (stub); hanging peers and cancellation not in this check; libp2p not encoded."),
 'C10': ('model_checking', "handleRangeRequest/handleHeadRequest/handleRequestByHash executed for unconstrained 64-bit origin, amount, tail, head (no loop) against a logging contract store: read bounds, clamp rule, limit, head and hash answers decided by the solver.", "libp2p streams, their deadlines and resets are environment; request bytes come from a catalogue of frames, not from an arbitrary symbolic buffer."),
 'C11': ('proof', "Finite catalogue (payload 5 x decode 3 x validate 3 x verifier 11) explored exhaustively on the real verifyMessage/extractHeader SSA; every obligation discharged.", "Assumes the documented pubsub validator contract (Accept = deliver+relay, Reject = penalise, Ignore = neither); libp2p-pubsub itself is not encoded."),
 'C13': ('model_checking', "Get/GetByHeight against <=2 (quick) / 3 (thorough) trusted peers, each answering with an error, a hang, or 0..2 responses with a defect from the catalogue (symbolic unknown status codes); request timeouts fire at quiescence.", "Network cut at sendMessage; arrival order = peer order (symmetry argument); response lists <= 2."),
 'C14': ('model_checking', "C08's scenarios with 1-2 handlers that read their header back; one handler call fails or panics at every position; exactly-once, readable-at-call, kept-on-failure and retry clauses checked.", "Sequential delete path; at most one failing handler call; K<=3 quick."),
 'C15': ('model_checking', "incomingNetworkHead/verify/verifyBifurcating for every distance d<=D, symbolic subjective height, arbitrary verdict function over pairs (soundness, refusal, termination bound) and trust-range verdicts (completeness); getter failure at any request.", "D<=5/12 quick, 7/40 thorough; store = specification store; pending empty at entry."),
 'C16': ('model_checking', "estimateTailHeight and findTailHeight executed for every Parameters value accepted by the real Validate, symbolic heights/times (division kernels decided by cvc5 --solve-bv-as-int); chains of K+1 headers for the retention clause and for wrap-around on slow/halted chains. One KNOWN-FINDING (retention, estimate-from-head).", "Scan loop <= SCANS iterations (find-sym), chains <= K+1 (find-chain*)."),
}
pending = {
 'C03': "check not built yet in this session (Syncer gossip/sync-loop harness planned: DESIGN 6 C03)",
 'C05': "check not built yet (session harness over the sendMessage stub planned: DESIGN 6 C05)",
 'C06': "check not built yet (crash-prefix harness over the zzMemDS commit log planned: DESIGN 6 C06); the Stop/flush ordering defect it targets was already found through C04 and fixed",
 'C07': "check not built yet (bounded-liveness harness planned: DESIGN 6 C07)",
 'C12': "check not built yet (reader/writer threads under gate scheduling planned: DESIGN 6 C12)",
 'C17': "check not built yet (writers/reader/deleter under gate scheduling planned: DESIGN 6 C17)",
 'C18': "check not built yet (honest-peer session harness planned: DESIGN 6 C18)",
 'C19': "harness written (props/C19) but the exploration does not finish within a usable budget yet; not registered until it runs clean",
}

claims.update({
 'C03': ('model_checking', "The real Syncer (Start, verifier, sync loop thread, Head() threads) is executed over a specification store and a contract-abiding getter; G gossip deliveries of any canonical header, of forged headers with an unconstrained 64-bit height (solver-decided), wrong-chain / future-dated headers and forks of already stored heights, interleaved at every getter request with the sync loop; store contiguity, batch shape, no-overwrite, refusal and never-stored clauses checked after every delivery and at quiescence.", "Schedules: pre-emption only at gates (before deliveries, inside getter requests), bound 1 (2 in the thorough-only unit gossip-between-reads); K<=4, G<=2 quick, K<=5 thorough (BOUNDS.md). The real Store is C04's subject."),
 'C05': ('model_checking', "GetRangeByHeight through the real session / peer queue / prepareRequests / processResponses / VerifyRange code for every (from,to) around a short chain incl. unconstrained degenerate 'to' values (solver-decided), chunk sizes {1,2,3,64}, 1-2 (3) peers and one (two) misbehaving answers from a 12-entry catalogue per run.", "Network cut at sendMessage (its response-count cap is therefore outside); bounded misbehaviour budget; N<=6 quick."),
 'C06': ('model_checking', "Clean restart (Stop directly after the last operation, compared with a synced reference run of the same history), crash at EVERY prefix of the datastore commit log, and windows of 1-3 failing writes, over histories of appends, syncs and deletions on the real Store, four configurations.", "Atomicity of one commit / one direct write is the assumed datastore contract; K<=3, L<=2 quick; one schedule per history."),
 'C07': ('model_checking', "Bounded liveness at quiescence: valid heads (adjacent, skipping, bursts during a running sync, also learned through concurrent Head() calls), prefixes of any length from the getter and up to 2 getter errors; the store head must reach the newest verified head, State()/SyncWait must report completion, an error must be reported and nothing lost otherwise.", "'Eventually' = quiescence of the bounded run; K<=7, G<=3 quick; schedules as in C03."),
 'C12': ('model_checking', "Readers (2) blocked in GetByHeight vs appends (contiguous, gapped, out of order, mixed batches) and per-reader cancellations on the real Store; scheduling points at every datastore operation; the lost wake-up found here was fixed (KNOWN_FINDINGS).", "Pre-emption only at datastore operations / writer gates, bound 1 in both tiers (one more store configuration in thorough); data races outside."),
 'C17': ('model_checking', "Two writers, a reader and an optional tail-side / whole-range deleter on the real Store: monotone Head/Height, Head retrievable, read-your-synced-writes, equality with a sequential execution, gap-free chain after racing deletion.", "Sequentially consistent interleavings with pre-emption at datastore operations only (bound 1-2 quick; 2-3 thorough, see BOUNDS.md); 3-4 writers, real-thread schedules and the race detector are outside this technique."),
 'C18': ('model_checking', "Client session code composed with the real ExchangeServer.handleRangeRequest as each peer's behaviour: every range length 1..3 x chunk, chunk sizes {1,2,3} ({..5,64} thorough), 1-2 peers, every availability prefix and benign fault (prefix once, timeout once, disconnect, stall after a prefix) with one fault-free capable peer.", "libp2p streams are replaced by an in-memory pipe in the wire-e2e unit; one server there."),
})
claims['C19'] = ('model_checking', "One Head() call from an arbitrary reachable state (stored prefix of a chain with symbolic ages, optional gossip head, optional clock advance, every Parameters value in range) with any getter answer (error, fresh, stale, expired, lower header): zero / exactly one request, trusted head carried, no expired initialisation, no downgrade; monotonicity across calls follows by induction from 'result >= subjective head at entry' and 'subjective head never moves backwards'.", "Durations and ages below 2^40 ns; sequences of calls only by induction (two-call exploration did not finish in 40 min).")
for k in ['C03','C05','C06','C07','C12','C17','C18','C19']:
    pending.pop(k, None)

# ---- refinements after the later units were added
def _upd(pid, text_add=None, note_add=None):
    cat,text,note = claims[pid]
    claims[pid] = (cat, text + (" " + text_add if text_add else ""), note + (" " + note_add if note_add else ""))
_upd('C05', "Lemma unit: prepareRequests partitions [from, from+amount) for unconstrained 64-bit arguments with at most R requests (solver-decided). Wire unit: the real sendMessage/serde/protobuf client against the real server through an in-memory pipe, with a Byzantine server appending an extra response frame.", "The first unit cuts the network at sendMessage; the wire unit keeps it and replaces only the libp2p stream.")
_upd('C10', "Wire unit: requestHandler over a scripted stream with the real serde framing and generated protobuf code: hash / origin requests, missing data, every truncation of a frame and garbage frames; status mapping and dispatch checked on the decoded responses.", "")
_upd('C08', "Parallel unit: deleteParallel with the threshold lowered to 2: partial failure keeps Tail <= Head, kept headers never below Tail, retry completes.", "")
_upd('C14', "Parallel unit: the same on deleteParallel (threshold lowered to 2) with handlers failing at up to two heights.", "")
_upd('C16', "Move unit: the whole subjectiveTail (renewTail + moveTail incl. doSync downwards) for every contiguous stored run of a K-chain and every configuration of the tail (height, hash, window). Second KNOWN-FINDING: moving the tail down onto the header below a single-header store fails with errNonAdjacent.", "")
_upd('C18', "Wire-e2e unit: real Exchange.Head/Get/GetByHeight/GetRangeByHeight + sendMessage + serde + protobuf against the real requestHandler through an in-memory pipe: headers arrive unchanged.", "")
_upd('C19', "Single-flight unit: 2 (3) concurrent Head() callers under gate scheduling: never more than one head request in flight, shared result.", "")
# ---- refinements after seeding rounds 3 and 4
_upd('C01', "Chain ids are bounded symbolic strings (every byte string up to 52 bytes): equality, len and constant slicing are decided by the solver.", "Chain ids longer than 52 bytes are outside.")
_upd('C03', "Unit forged-head-callers: overlapping Head() callers against a Head getter that may once offer a forged, softly failing head (shared single-flight result included).", "")
_upd('C07', "Injected getter errors may wrap context.Canceled / DeadlineExceeded while the Syncer context is alive. A defect found by the thorough tier (overtaken network head applied under a running sync) was repaired (KNOWN_FINDINGS: b6967e1).", "")
_upd('C08', "Tail-side deletions may race with the chain growing: an append (and flush) in the middle of the deletion, or an append still queued for the writer when DeleteRange is called; a fifth configuration (plain datastore, write batch 2).", "")
_upd('C12', "A configuration that flushes per header over snapshot read transactions of the context-aware datastore.", "")
_upd('C13', "Unit get-more-peers: 3 (5) trusted peers with a short answer catalogue and a gated arrival order.", "")
_upd('C14', "After a deletion without failure the chain continues and a later deletion must announce its header to every handler again.", "")
_upd('C16', "The move unit also recomputes the tail for a network head above the local head and with a failing fetch of the new tail. Third KNOWN-FINDING: a new tail above local head + 1 wedges Head()/Start (node offline for longer than its pruning window).", "")
_upd('C17', "Units reader-in-delete-window (multi-header tail deletion, reader touching the range) and reader-vs-flush (scheduling points before and after each datastore read).", "")
_upd('C18', "Slow-peer score catalogue with a bounded-progress oracle; unit honest-split-interleaved with an overlay-only scheduling point inside session.doRequest.", "")
_upd('C19', "Units monotone-during-sync (Head() observed at every scheduling point of the real sync loop) and monotone-overlapping (overlapping callers, lagging trusted peers, linearisation oracle).", "")
checks=[]
for pid,(cat,text,note) in sorted(claims.items()):
    checks.append({
      "property_id": pid,
      "quick_cmd": f"./check {pid} quick",
      "thorough_cmd": f"./check {pid} thorough",
      "evidence_file": f"/verif/evidence/{pid}.json",
      "replay_cmd_template": "cat {path}   # the file names package, harness, inputs and expected outcome; `./check <ID> <tier>` rebuilds the native replay binary and re-runs it",
      "engine": "gse",
      "level_claimed": {"category": cat, "text": text, "design_ref": f"DESIGN.md section 6, {pid}"},
      "level_note": note,
      "technique": "bounded symbolic execution of the real go/ssa code, SMT (z3/cvc5) deciding every branch and assertion, native replay of every model",
    })
m={
 "version": 1,
 "setup_cmd": "cd /verif/gse && PATH=/opt/veriftools/go1.26.8/bin:$PATH GOFLAGS=-mod=mod GOPROXY=off GOSUMDB=off GOTOOLCHAIN=local go build -o ../bin/gse .",
 "hooks": {
  "guard": "verif",
  "enable": "none needed: harnesses, helper packages and function stubs are injected through go/packages and `go test -overlay` overlays generated from /repo's current sources; /repo contains no hook",
  "baseline_off_cmd": "cd /repo && PATH=/opt/veriftools/go1.26.8/bin:$PATH GOFLAGS=-mod=mod GOPROXY=off GOTOOLCHAIN=local go test -vet=off -count=1 -timeout 25m ./...",
  "source_commits": [],
  "add_only": True
 },
 "engines": [{"name": "gse", "path": "/verif/gse", "serves_properties": sorted(claims), "kind_free_text": "bounded symbolic executor over go/ssa of the real code (threads, channels, contexts, timers); SMT (z3 4.8.12 / cvc5 1.0.3 bv-as-int) decides every branch and assertion; every model is replayed natively (go test -overlay, testing/synctest)"}],
 "checks": checks,
 "not_applicable": [{"property_id": k, "reason": v} for k,v in sorted(pending.items())],
 "notes": "fix: commits in /repo and the recorded findings are listed in /verif/KNOWN_FINDINGS.txt; registered bounds per unit and tier: /verif/BOUNDS.md; seeded changes and which checks catch them: /verif/seeded and DESIGN.md section 10"
}
json.dump(m, open(os.path.join(V,'MANIFEST.json'),'w'), indent=1)
print("checks:", len(checks), "not_applicable:", len(pending))
