#!/bin/sh
# usage: tryseed.sh <patch.diff> <ID> [tier] [extra flags]  -- applies the seeded change to /repo, runs the check, reverts.
patch=$1; id=$2; tier=${3:-quick}; shift; shift; shift
cd /repo || exit 9
if [ -n "$(git status --porcelain)" ]; then echo "repo not clean"; exit 9; fi
git apply "$patch" || { echo "patch does not apply"; exit 9; }
cd /verif && ./check "$id" "$tier" -no-canaries "$@"; rc=$?
git -C /repo checkout -- . 
echo "tryseed: exit=$rc"
