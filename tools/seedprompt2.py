#!/usr/bin/env python3
import json,sys
pid=sys.argv[1]
taken={
 'C03': ["setLocalHead skipping the 'store head already at or above' check", "in-place compaction in headerRange.Remove"],
 'C04': ["batch.DeleteRange off-by-one predicates", "setHead writing the wrong pointer key"],
 'C05': ["session collecting one result per prepared request", "sendMessage reading one response too many"],
 'C06': ["flush retry loop abandoning on context cancellation", "readByKey losing the ErrNotFound wrapping"],
 'C07': ["ranges.Add accepting an equal height", "doSync not clearing State().Error"],
 'C08': ["deleteParallel result ordering", "batch.DeleteRange inclusive upper bound"],
 'C12': ["Notify skipped when the head advanced", "heightSub.Wait subscriber count off by one"],
 'C17': ["batch.DeleteRange hash index off-by-one", "setTail reusing a stale head"],
 'C13': ["Validate skipped without chain id", "performRequest returning nil,nil on request timeout"],
 'C16': ["estimateTailHeight >= to >", "findTailHeight underflow guard dropped"],
 'C19': ["networkHead returning the lower new head", "subjectiveHead checking expiry of the wrong header"],
 'C15': ["subjHead not advanced in the bifurcation loop", "bifurcation result tested with errors.As"],
 'C09': ["useTrackedPeers only set when tracked peers exist", "highest-head path pairing the wrong softErr"],
 'C10': ["tail boundary off-by-one in handleRangeRequest", "requestHandler dispatching an empty hash to the range arm"],
 'C14': ["OnDelete wrapper losing the recovered panic", "deleteParallel result ordering"],
 'C18': ["remainder re-request sized by the received count", "prefix dropped when the per-request context expired"],
 'C11': ["recover moved below extractHeader", "type switch instead of errors.As for the soft error"],
 'C01': ["time order compared in seconds", "type assertion instead of errors.As"],
 'C02': ["trusted header not rolled forward", "adjacency as signed count"],
}
for l in open('/verif/properties.jsonl'):
    p=json.loads(l)
    if p['id']==pid: break
t="; ".join(taken.get(pid,[]))
print(f"""You are helping test a verification effort for the Go library celestiaorg/go-header (a library for syncing, exchanging over libp2p, verifying and storing blockchain headers). Your job: craft ONE realistic *bug* (a "seeded change") that breaks ONE stated semantic property of the library while still compiling and passing the library's existing test suite.

THE PROPERTY ({pid}): {p['title']}
Statement: {p['statement']}
Quantified over: {p['quantifier']['text']}

Other people already produced changes based on these ideas, so do something DIFFERENT (another code site and another mechanism): {t}.

SETUP (sandbox has NO network; do exactly this):
- Every shell call must start with: export PATH=/opt/veriftools/go1.26.8/bin:$PATH GOFLAGS=-mod=mod GOPROXY=off GOSUMDB=off GOTOOLCHAIN=local
- Create your own scratch git worktree of the repository: `git -C /repo worktree add --detach /tmp/seed2-{pid}-wt HEAD`. Work ONLY inside /tmp/seed2-{pid}-wt and /tmp/seed2-{pid}-out. NEVER edit anything under /repo itself, and never look at or touch /verif.
- The existing test suite is run with: `cd /tmp/seed2-{pid}-wt && go test -vet=off -count=1 -timeout 25m ./...` (about 15 s). NOTE: on this machine the test `Test_syncHead` in ./sync/ is timing-flaky and fails most of the time even on the unchanged tree; ignore that one test (use `-skip '^Test_syncHead$'` for the sync package). A few store tests based on short sleeps can also flake under load: re-run them alone before concluding.
- NEVER use `git stash` (shared by all worktrees). To toggle your change use `git diff > /tmp/seed2-{pid}-out/x.patch && git apply -R /tmp/seed2-{pid}-out/x.patch` and `git apply` to re-apply.

THE CHANGE must:
1. be a small, realistic source change to non-test .go files (a slip a maintainer could plausibly make in a refactor: a dropped check, a flipped comparison, a reordered pair of steps, a wrong bound, a lost error path, a missing lock/notification, a stale cached value, ...);
2. still compile, and the full existing test suite must still pass with it (apart from the known-flaky test above);
3. break the property above, but only under something specific: a particular interleaving, a crash or fault at a particular point, a multi-step sequence of operations, an unusual/boundary input, or two cooperating sites that each look fine alone. NOT something ordinary use would expose at once;
4. come with a demonstration: a new Go test file placed in the relevant package directory with one test function that FAILS with your change applied and PASSES on the unchanged tree, deterministically (no reliance on lucky timing; use channels/hooks/mocks written inside the test file to force orders). Verify both directions yourself.

DELIVERABLES in /tmp/seed2-{pid}-out/A:
- patch.diff : `git diff` of the library change only (NOT the demonstration test), appliable with `git apply` at the repository root;
- demo_test.go plus demo_path.txt (one line: the repository-relative path where the test file must be placed, then the `go test` command to run it, e.g. `store/zz_seed2_test.go ; go test -vet=off -count=1 -run TestSeed2 ./store/`);
- notes.md : what the change is, why the existing tests do not notice, exactly what is needed for the violation to manifest, and the observed outputs in both directions.

When finished, remove your worktree: `git -C /repo worktree remove --force /tmp/seed2-{pid}-wt`. Keep /tmp/seed2-{pid}-out. In your final answer, summarise the change in 3-4 lines.""")
